"""C20 helper: real Trainer / Evaluator / DataLoader / SGD / loss / model objects behind logging proxies, the ghost call log,
and the contracts of Trainer.fit / Trainer.test / Evaluator as predicates over that log.

Log events (tuples):  ("iter", loader, state_bytes)  ("batch", loader, idx)  ("train()",)  ("eval()",)
   ("forward", training flags of the model and every submodule, global gradient mode)  ("loss", value)
   ("ev_step", prefix, labels, outputs)  ("zero_grad",)  ("backward",)  ("step",)  ("cb", which)
"""
import contextlib
import io
import sys
import types

import numpy as np


def _stub_pkg_resources():
    """pkbar imports pkg_resources, which the sandbox's Python 3.12 venv lacks; provided here, outside /repo"""
    if "pkg_resources" in sys.modules:
        return
    m = types.ModuleType("pkg_resources")

    class DistributionNotFound(Exception):
        pass

    def get_distribution(name):
        raise DistributionNotFound(name)
    m.DistributionNotFound, m.get_distribution = DistributionNotFound, get_distribution
    sys.modules["pkg_resources"] = m


_stub_pkg_resources()
import synapgrad  # noqa: E402
from synapgrad import nn, optim  # noqa: E402
from synapgrad.nn.utils.data import DataLoader  # noqa: E402
from synapgrad.nn.utils.train import Evaluator, Trainer  # noqa: E402

TM = sys.modules["synapgrad.tensor"]          # the module (synapgrad.tensor the attribute is the function tensor())
Tensor = TM.Tensor
FIELDS = ("epochs", "n_train", "bs", "val", "ev", "cb_train", "cb_val", "rem", "val_raises")
DEFAULT = dict(epochs=1, n_train=1, bs=2, val=None, ev=None, cb_train=False, cb_val=False, rem=0, val_raises=False)
MODES = (Evaluator.BINARY, Evaluator.MULTI_CLASS, Evaluator.CATEGORICAL)


class Boom(Exception):
    """raised by the harness' own data pipeline inside the validation loop"""


def decode(mode, labels, outputs):
    """the statement's 'correct prediction under the selected label mode', independent of Evaluator's code"""
    labels, outputs = np.asarray(labels), np.asarray(outputs)
    if mode == Evaluator.BINARY:
        return labels.reshape(-1).astype(int), (outputs.reshape(-1) > 0.5).astype(int)
    pred = outputs.reshape(-1, outputs.shape[-1]).argmax(axis=1)
    if mode == Evaluator.MULTI_CLASS:
        return labels.reshape(-1).astype(int), pred
    return labels.reshape(-1, labels.shape[-1]).argmax(axis=1), pred


def features(case):
    c, f = case, []
    if c["epochs"] == 0: f.append("zero_epochs")
    if c["epochs"] > 1: f.append("several_epochs")
    if c["n_train"] == 0: f.append("zero_train_batches")
    if c["n_train"] > 1: f.append("several_train_batches")
    if c["bs"] == 1: f.append("batch_size_1")
    if c["bs"] > 2: f.append("batch_size_3")
    if c["val"] == 0: f.append("zero_validation_batches")
    if c["val"]: f.append("validation_loader")
    if c["ev"]: f.append("evaluator_" + c["ev"])
    if c.get("ev_cb"): f.append("evaluator_metric_callbacks")
    if c.get("hist"): f.append("history_" + c["hist"])
    if c.get("peek"): f.append("loader_partially_consumed_" + ("before_fit" if c["peek"] == "before" else "by_epoch_callback"))
    if c["cb_train"]: f.append("on_train_epoch_callback" + ("_touching_one_submodule" if c["cb_train"] == "child" else ""))
    if c["cb_val"]: f.append("on_validation_epoch_callback" + ("_touching_one_submodule" if c["cb_val"] == "child" else ""))
    if c["rem"]: f.append("partial_last_batch")
    if c["val_raises"]: f.append("validation_raises")
    return f


# ------------------------------------------------------------------------------------------------ logged real objects
class World:
    def __init__(self, case, seed=0):
        self.case, self.log, self.mute = case, [], False
        rng = np.random.RandomState(1000 + seed)
        mode, bs = case["ev"], case["bs"]
        out = 3 if mode in (Evaluator.MULTI_CLASS, Evaluator.CATEGORICAL) else 1
        log = self.log
        world = self

        class Net(nn.Module):
            def __init__(s):
                super().__init__()
                s.l = nn.Linear(3, 4)
                s.bn = nn.BatchNorm1d(4) if bs > 1 else nn.ReLU()     # batch statistics need >= 2 samples (torch refuses too)
                s.do = nn.Dropout(0.5)
                s.o = nn.Linear(4, out)

            def forward(s, x):
                return s.o(s.do(s.bn(s.l(x))))

            def __call__(s, *a, **k):
                log.append(("forward", tuple(m.training for m in (s, s.l, s.bn, s.do, s.o)), TM.gradient__))
                return super().__call__(*a, **k)

            def train(s, *a, **k):          # signature-agnostic: a torch-style train(mode) must not trip the harness
                log.append(("train()",))
                return super().train(*a, **k)

            def eval(s, *a, **k):
                log.append(("eval()",))
                return super().eval(*a, **k)

        class LSGD(optim.SGD):
            def step(s):
                log.append(("step",))
                return super().step()

            def zero_grad(s):
                r = super().zero_grad()
                # what "clearing the gradients" means for the update that follows: no parameter that may be updated still carries a gradient
                left = [i for i, p_ in enumerate(s.parameters) if p_.requires_grad and p_._grad is not None and np.any(np.asarray(p_._grad) != 0)]
                log.append(("zero_grad", left))
                return r

        class LLoss:
            def __init__(s, inner):
                s.inner = inner

            def __call__(s, y_pred, y_true):
                v = s.inner(y_pred, y_true)
                log.append(("loss", float(np.asarray(v.data).reshape(()))))
                return v

        class LEvaluator(Evaluator):
            def step(s, labels, outputs, prefix=None):
                log.append(("ev_step", prefix, np.array(labels.data, copy=True), np.array(outputs.data, copy=True)))
                return super().step(labels, outputs, prefix=prefix)

        class LLoader(DataLoader):
            def __iter__(s):
                if not world.mute:
                    log.append(("iter", s.name, world.state()))
                return super().__iter__()

            def __getitem__(s, idx):
                if not world.mute:
                    log.append(("batch", s.name, idx))
                if s.raises_at is not None and idx == s.raises_at:
                    raise Boom("data pipeline failure in batch %d" % idx)
                return super().__getitem__(idx)

        def transform(loader, X, y):
            return Tensor(X), Tensor(y.astype(np.int32) if mode == Evaluator.MULTI_CLASS else y)

        def data(n):
            X = rng.randn(n, 3).astype(np.float32)
            if mode == Evaluator.MULTI_CLASS:
                y = rng.randint(0, 3, n).astype(np.float32)
            elif mode == Evaluator.CATEGORICAL:
                y = np.eye(3, dtype=np.float32)[rng.randint(0, 3, n)]
            else:
                y = rng.randint(0, 2, n).astype(np.float32)
            return X, y

        def loader(name, batches, rem, raises_at=None):
            X, y = data(batches * bs + rem)
            ld = LLoader(X, y, bs, transform)
            ld.name, ld.raises_at = name, raises_at
            return ld

        self.model = Net()
        hist = case.get("hist")
        if hist == "bn_untracked_later" and isinstance(self.model.bn, nn.BatchNorm1d):
            self.model.bn.track_running_stats = False      # the layer keeps its buffers; in eval mode it must go on normalising with them and must not touch them
        if hist == "unfreeze_in_callback":
            self.model.l.freeze()                           # frozen while the optimizer is built; the epoch callback unfreezes it (progressive unfreezing)
        self.trainer = Trainer(self.model, synapgrad)
        self.loss = LLoss(nn.CrossEntropyLoss() if mode == Evaluator.MULTI_CLASS else nn.MSELoss())
        self.trainer.compile(self.loss, LSGD(self.model.parameters(), lr=0.05, momentum=0.5), (LEvaluator(mode=mode, epoch_callback=lambda yt, yp: [("err", np.float64(np.mean(yt != yp))), ("validity", np.float64(np.mean(yt != yp)))], step_callback=lambda yt, yp: [("step_err", np.float64(np.mean(yt != yp)))])
                                                                                                  if case.get("ev_cb") else LEvaluator(mode=mode)) if mode else None)
        self.train_loader = loader("train", case["n_train"], case["rem"] if bs > 1 else 0)
        self.val_loader = None if case["val"] is None else loader("val", case["val"], 0, (case["val"] - 1) if case["val_raises"] else None)
        self.test_loader = loader("test", 2 if case["val"] is None else case["val"], 0)

    def state(self):
        """every parameter and every running statistic, byte for byte"""
        parts = [p.data.tobytes() for p in (self.model.l.weight, self.model.l.bias, self.model.o.weight, self.model.o.bias)]
        bn = self.model.bn
        if isinstance(bn, nn.BatchNorm1d):
            parts += [bn.weight.data.tobytes(), bn.bias.data.tobytes(), bn.running_mean.data.tobytes(), bn.running_var.data.tobytes(),
                      repr(bn.num_batches_tracked).encode()]
        return b"|".join(parts)

    @contextlib.contextmanager
    def observed(self):
        orig, log = Tensor.backward, self.log

        def backward(t, grad=None):
            log.append(("backward",))
            return orig(t, grad)
        Tensor.backward = backward
        try:
            with contextlib.redirect_stdout(io.StringIO()), np.errstate(all="ignore"):
                yield
        finally:
            Tensor.backward = orig

    def peek(self, loader):
        """what a user does to look at one batch: next(iter(loader)); the loader is left partially consumed (not logged: it is not part of fit)"""
        if loader is not None and len(loader) >= 1:
            self.mute = True
            try:
                next(iter(loader))
            finally:
                self.mute = False

    def cb(self, which):
        def f(model, loader):      # a callback that leaves the model (or only ONE submodule of it) in the wrong mode for what follows
            self.log.append(("cb", which))
            if self.case.get("peek") == "callback":
                self.peek(loader)
            if self.case.get("hist") == "unfreeze_in_callback" and which.startswith("train"):
                self.model.l.unfreeze()
            if which == "train":
                nn.Module.eval(model)
            elif which == "val":
                nn.Module.train(model)
            elif which == "train-child":
                model.do.eval()         # the root still reports training mode
            else:
                model.do.train()        # the root still reports eval mode
        return f


# ------------------------------------------------------------------------------------------------------ contracts
def run_fit(case, seed=0):
    """one fit under observation; returns [(obligation, what, extra key fields, replay)] of failed clauses and the clause count"""
    w = World(case, seed)
    fails, n = [], 0

    def ck(cond, obligation, what, **extra):
        nonlocal n
        n += 1
        if not cond:
            fails.append((obligation, what() if callable(what) else what, extra))

    c = case
    T = c["n_train"]
    g_before = TM.gradient__
    hist = exc = None
    try:
        with w.observed():
            if c.get("peek") == "before":       # the loaders' history before fit: somebody looked at a first batch
                w.peek(w.train_loader)
                w.peek(w.val_loader)
            hist = w.trainer.fit(w.train_loader, c["epochs"], w.val_loader,
                                 on_train_epoch=w.cb("train-child" if c["cb_train"] == "child" else "train") if c["cb_train"] else None,
                                 on_validation_epoch=w.cb("val-child" if c["cb_val"] == "child" else "val") if c["cb_val"] else None)
    except Exception as e:
        exc = e
    g_after = TM.gradient__
    TM.gradient__ = True
    end_state = w.state()
    log = w.log
    if len(w.train_loader) != T:
        raise RuntimeError("harness: len(train_loader) = %d, built %d batches" % (len(w.train_loader), T))
    ck(g_after == g_before, "Trainer.fit.restores_gradient_mode", "global gradient mode %s before fit, %s after%s" % (g_before, g_after, " (validation loop raised)" if exc else ""))
    if exc is not None:
        expected = c["val_raises"] and isinstance(exc, Boom)
        ck(expected, "Trainer.fit.completes", "fit raised %s: %s" % (type(exc).__name__, exc), exception=type(exc).__name__)
        return n, fails, _replay(case, log, hist)
    # ---- the update protocol
    steps = [i for i, e in enumerate(log) if e[0] == "step"]
    ck(len(steps) == c["epochs"] * T, "Trainer.fit.steps_per_epoch", "%d optimizer.step() calls for epochs=%d x len(train_loader)=%d" % (len(steps), c["epochs"], T))
    prev = -1
    for s in steps:
        zg = [e for e in log[prev + 1:s] if e[0] == "zero_grad"]
        ck(all(not e[1] for e in zg if len(e) > 1), "Trainer.fit.gradients_cleared_before_each_update",
           lambda: "after the optimizer's zero_grad() the parameters %s (positions in the optimizer's list) that require grad still hold a non-zero gradient" % [e[1] for e in zg if len(e) > 1 and e[1]])
        win = [e[0] for e in log[prev + 1:s]]
        ok = win.count("backward") == 1 and "zero_grad" in win and win.index("zero_grad") < win.index("backward") and "zero_grad" not in win[win.index("backward"):]
        ck(ok, "Trainer.fit.zero_grad_then_backward_before_step", lambda: "between two updates the log reads %s" % win)
        prev = s
    phase, epoch = None, -1
    losses, evs, val_open = {}, {}, None
    for i, e in enumerate(log):
        if e[0] == "iter":
            if e[1] == "train":
                epoch += 1
            if val_open is not None:
                ck(e[2] == val_open, "Trainer.fit.validation_changes_no_state", "parameters / running statistics differ after the validation of epoch %d" % (epoch - 1))
                val_open = None
            if e[1] == "val":
                val_open = e[2]
        elif e[0] == "batch":
            phase = e[1]
        elif e[0] == "forward":
            if phase == "train":
                ck(all(e[1]) and e[2], "Trainer.fit.update_computed_in_training_mode", "training forward with training flags %s, gradient mode %s" % (e[1], e[2]))
            else:
                ck(not any(e[1]), "Trainer.fit.validation_in_eval_mode", "validation forward with training flags (model, submodules) = %s" % (e[1],))
                ck(e[2] is False, "Trainer.fit.validation_without_gradient_tracking", "validation forward with global gradient mode %s" % e[2])
        elif e[0] == "loss":
            losses.setdefault((epoch, phase), []).append(e[1])
        elif e[0] == "ev_step":
            evs.setdefault((epoch, phase), []).append(e)
            ck(e[1] == (None if phase == "train" else "val"), "Trainer.fit.history_val_prefix", "evaluator.step called with prefix %r in the %s phase" % (e[1], phase))
    if val_open is not None:
        ck(end_state == val_open, "Trainer.fit.validation_changes_no_state", "parameters / running statistics differ after the last validation")
    # ---- the history
    want = ["loss"] + (["accuracy"] if c["ev"] else []) + (["err", "validity"] if c["ev"] and c.get("ev_cb") else [])      # step metrics are progress-bar only; "validity": a user metric whose name happens to start with the prefix
    if c["val"] is not None:
        want += ["val_" + k for k in want]
    ck(isinstance(hist, dict), "Trainer.fit.history_one_entry_per_epoch", "fit returned %r" % type(hist).__name__)
    hist = hist if isinstance(hist, dict) else {}
    for k in want:
        ck(len(hist.get(k, [])) == c["epochs"], "Trainer.fit.history_one_entry_per_epoch", "history[%r] has %d entries for %d epochs" % (k, len(hist.get(k, [])), c["epochs"]), which=k)
    for k in hist:
        ck(k in want and len(hist[k]) == c["epochs"], "Trainer.fit.history_val_prefix" if k.startswith("val_") else "Trainer.fit.history_one_entry_per_epoch",
           "unexpected history entry %r (%d values) for this configuration" % (k, len(hist[k])), which=k)
    for (ep, ph), vals in losses.items():
        k = "loss" if ph == "train" else "val_loss"
        got = float(hist[k][ep]) if len(hist.get(k, [])) > ep else float("nan")
        mean = float(np.mean(np.array(vals, dtype=np.float64)))
        ck(abs(got - mean) <= 1e-5 * max(1.0, abs(mean)), "Trainer.fit.epoch_loss_is_mean_of_batch_losses", "history[%r][%d] = %r, mean of the %d batch losses = %r" % (k, ep, got, len(vals), mean), which=k)
    for (ep, ph), es in evs.items():
        k = "accuracy" if ph == "train" else "val_accuracy"
        yt, yp = zip(*[decode(c["ev"], e[2], e[3]) for e in es])
        frac = float(np.mean(np.concatenate(yt) == np.concatenate(yp)))
        got = float(hist[k][ep]) if len(hist.get(k, [])) > ep else float("nan")
        ck(abs(got - frac) <= 1e-9, "Trainer.fit.epoch_accuracy_is_fraction_correct", "history[%r][%d] = %r, fraction of correct predictions = %r" % (k, ep, got, frac), which=k)
        for base in (("err", "validity") if c.get("ev_cb") else ()):
            k = base if ph == "train" else "val_" + base
            got = float(hist[k][ep]) if len(hist.get(k, [])) > ep else float("nan")
            ck(abs(got - (1.0 - frac)) <= 1e-9, "Trainer.fit.history_every_metric_per_epoch", "history[%r][%d] = %r, the callback metric of that epoch is %r" % (k, ep, got, 1.0 - frac), which=k)
    return n, fails, _replay(case, log, hist)


def run_test(case, ambient, seed=0):
    """Trainer.test on a trained-for-one-epoch model, inside an ambient gradient mode"""
    w = World(case, seed)
    fails, n = [], 0

    def ck(cond, obligation, what, **extra):
        nonlocal n
        n += 1
        if not cond:
            fails.append((obligation, what, extra))
    w.trainer.evaluator = None          # test() does not use it; case["ev"] only selects scalar / vector outputs here
    try:
        with w.observed():
            w.trainer.fit(w.train_loader, 1)
    except Exception as e:
        raise RuntimeError("harness: preparatory fit failed: %r" % e)
    del w.log[:]
    w.test_loader.raises_at = (len(w.test_loader) - 1) if case["val_raises"] else None
    TM.gradient__ = ambient
    before, exc, res = w.state(), None, None
    try:
        with w.observed():
            res = w.trainer.test(w.test_loader)
    except Exception as e:
        exc = e
    g_after = TM.gradient__
    TM.gradient__ = True
    ck(g_after == ambient, "Trainer.test.restores_gradient_mode", "global gradient mode %s before test, %s after%s" % (ambient, g_after, " (loop raised)" if exc else ""), ambient=ambient)
    ck(w.state() == before, "Trainer.test.changes_no_state", "parameters / running statistics differ after test")
    for e in w.log:
        if e[0] == "forward":
            ck(not any(e[1]), "Trainer.test.in_eval_mode", "test forward with training flags %s" % (e[1],))
            ck(e[2] is False, "Trainer.test.without_gradient_tracking", "test forward with global gradient mode %s" % e[2])
    if exc is not None:
        ck(case["val_raises"] and isinstance(exc, Boom), "Trainer.test.completes", "test raised %s: %s" % (type(exc).__name__, exc), exception=type(exc).__name__)
    else:
        nb = len(w.test_loader) * case["bs"]
        ck(len(res[0]) == nb and len(res[1]) == nb, "Trainer.test.one_prediction_per_sample", "%d predictions, %d labels for %d samples" % (len(res[0]), len(res[1]), nb))
    return n, fails, _replay(case, w.log, None)


def _replay(case, log, hist):
    short = [e[:2] if e[0] in ("iter", "ev_step") else e for e in log]
    return {"case": dict(case), "call_log": [list(map(str, e)) for e in short[:80]], "history": {k: [float(x) for x in v] for k, v in (hist or {}).items()}}


# -------------------------------------------------------------------------------------------------------- Evaluator
SCORES = (0.1, 0.49, 0.51, 0.9)
ROWS = ((0.7, 0.2, 0.1), (0.1, 0.7, 0.2), (0.2, 0.1, 0.7))


def evaluator_batches(mode, n):
    """every batch of n samples over the small score / label alphabets: (labels array, outputs array)"""
    import itertools
    if mode == Evaluator.BINARY:
        for combo in itertools.product(itertools.product(SCORES, (0, 1)), repeat=n):
            yield np.array([l for _, l in combo], dtype=np.float32), np.array([s for s, _ in combo], dtype=np.float32)
    else:
        for combo in itertools.product(itertools.product(range(3), range(3)), repeat=n):
            lab = np.array([l for _, l in combo])
            yield (np.eye(3, dtype=np.float32)[lab] if mode == Evaluator.CATEGORICAL else lab.astype(np.int32)), np.array([ROWS[r] for r, _ in combo], dtype=np.float32)


def run_evaluator(mode, batches, prefix=None):
    """Evaluator.step on each batch in turn, then compute(); contracts: per-step accuracy and the accumulated accuracy are the
    fraction of correct predictions, names carry the prefix"""
    fails, n = [], 0

    def ck(cond, obligation, what, **extra):
        nonlocal n
        n += 1
        if not cond:
            fails.append((obligation, what, extra))
    ev = Evaluator(mode=mode)
    name = "accuracy" if prefix is None else prefix + "_accuracy"
    yts, yps = [], []
    replay = {"mode": mode, "prefix": prefix, "batches": [{"labels": l.tolist(), "outputs": o.tolist()} for l, o in batches]}
    for lab, outp in batches:
        yt, yp = decode(mode, lab, outp)
        yts.append(yt)
        yps.append(yp)
        try:
            with np.errstate(all="ignore"):
                m = dict(ev.step(Tensor(lab.copy()), Tensor(outp.copy()), prefix=prefix))
        except Exception as e:
            ck(False, "Evaluator.step.completes", "step on a batch of %d sample(s), labels %s outputs %s raised %s: %s" % (len(lab), lab.shape, outp.shape, type(e).__name__, e), exception=type(e).__name__)
            return n, fails, replay
        frac = float(np.mean(yt == yp))
        ck(set(m) == {name}, "Evaluator.step.metric_names_carry_prefix", "metrics %s, expected [%r]" % (sorted(m), name))
        ck(name in m and abs(float(m[name]) - frac) <= 1e-12, "Evaluator.step.accuracy_is_fraction_correct", "step accuracy %r, %d of %d predictions correct" % (m.get(name), int((yt == yp).sum()), len(yt)))
    try:
        m = dict(ev.compute(prefix=prefix))
    except Exception as e:
        ck(False, "Evaluator.compute.completes", "compute raised %s: %s" % (type(e).__name__, e), exception=type(e).__name__)
        return n, fails, replay
    yt, yp = np.concatenate(yts), np.concatenate(yps)
    ck(name in m and abs(float(m[name]) - float(np.mean(yt == yp))) <= 1e-12, "Evaluator.compute.accuracy_is_fraction_correct",
       "accumulated accuracy %r, %d of %d predictions correct" % (m.get(name), int((yt == yp).sum()), len(yt)))
    return n, fails, replay
