"""C17 run-time contracts, evaluated in a child interpreter with the DEFAULT recursion limit (never raised here).

    python -m vf.rtc.deep '{"kind": "graph", "family": "chain", "n": 10000, "timing": true}'
    python -m vf.rtc.deep '{"kind": "untracked", "mode": "no_grad", "loops": [1000, 10000]}'

The child prints `PHASE <name>` markers to stderr and one `RESULT <json>` line to stdout. `run_job` (parent side) starts it and
classifies the outcome; a crash of the child cannot take the check down with it.
"""
import gc
import json
import os
import subprocess
import sys
import time
import weakref
from contextlib import nullcontext

ROOT = os.path.dirname(os.path.dirname(os.path.dirname(os.path.abspath(__file__))))


def _phase(name):
    print("PHASE " + name, file=sys.stderr, flush=True)


# ----------------------------------------------------------------------------------------------- graph builders
class Builder:
    """Builds differentiable graphs from one float64 leaf with add / mul / neg / reshape only (values stay finite) and tracks the
    analytically known d root / d leaf and the number of recorded operations."""

    def __init__(self):
        import numpy as np
        import synapgrad as sg
        from synapgrad import functional as F
        self.np, self.sg, self.F = np, sg, F
        self.leaf = sg.tensor([0.5, -1.5, 2.0], requires_grad=True, dtype=np.float64)
        self.c = sg.tensor([1.0001, 0.9999, 1.0002], dtype=np.float64)
        self.b = sg.tensor([0.5, 0.25, -0.5], dtype=np.float64)
        self.ops = 0

    def chain(self, y, n, scale=0):
        """n sequential ops: mul by constant, add constant, neg, reshape, ... ; returns (tensor, d tensor / d y)"""
        c = self.c if not scale else self.sg.tensor(self.c.data + 1e-4 * scale, dtype=self.np.float64)
        d = self.np.ones(3)
        for i in range(n):
            k = i % 4
            if k == 0:
                y, d = y * c, d * c.data
            elif k == 1:
                y = y + self.b
            elif k == 2:
                y, d = self.F.neg(y), -d
            else:
                y = self.F.reshape(y, (1, 3) if y.ndim == 1 else (3,))
        self.ops += n
        return y, d

    def ladder(self, y, n):
        """n//2 rungs y <- y*e + y : every interior node feeds two consumers; depth n"""
        e = self.sg.tensor([1e-4, -1e-4, 2e-4], dtype=self.np.float64)
        d = self.np.ones(3)
        for _ in range(n // 2):
            y, d = y * e + y, d * (e.data + 1.0)
        self.ops += 2 * (n // 2)
        return y, d

    def wide(self, width, depth):
        """`width` branches of `depth` ops from the one leaf, summed by a balanced tree of adds (depth + log2(width))"""
        ts, d = [], self.np.zeros(3)
        for i in range(width):
            t, di = self.chain(self.leaf, depth, scale=1 + i % 7)
            if t.ndim != 1:
                t = self.F.reshape(t, (3,))
                self.ops += 1
            ts.append(t)
            d = d + di
        while len(ts) > 1:
            nxt = [ts[j] + ts[j + 1] for j in range(0, len(ts) - 1, 2)]
            self.ops += len(nxt)
            ts = nxt + ([ts[-1]] if len(ts) % 2 else [])
        return ts[0], d

    def dag(self, n, seed):
        """random DAG of n binary elementwise ops over the leaf and earlier nodes (operands drawn with a bias to recent nodes, so that
        intermediates are shared by several consumers in every order); the derivative is carried along in forward mode"""
        import random
        rng = random.Random(seed)
        np = self.np
        half = self.sg.tensor([0.5, 0.5, 0.5], dtype=np.float64)
        nodes = [(self.leaf, np.ones(3))]
        for _ in range(n):
            pick = lambda: nodes[max(0, len(nodes) - 1 - int(rng.random() ** 2 * min(len(nodes), 6)))] if rng.random() < 0.8 else nodes[rng.randrange(len(nodes))]
            (a, da), (b, db) = pick(), pick()
            k = rng.random()
            if k < 0.45:
                y, d = a + b, da + db
            elif k < 0.9:
                y, d = a * b, da * b.data + a.data * db
            else:
                y, d = a * half, da * 0.5
            nodes.append((y, d))
        self.ops_built = n
        return nodes[-1]

    def stackfan(self, n):
        """ONE operation with n operands: stack of n branches leaf*c_i, summed (backward must stay linear in the number of operands of a node too)"""
        np = self.np
        cs = [1.0 + (i % 13) * 1e-3 for i in range(n)]
        ts = [self.leaf * self.sg.tensor([c, c, c], dtype=np.float64) for c in cs]
        y = self.F.sum(self.F.stack(ts, 0), 0)
        self.ops += n + 2
        return y, np.ones(3) * float(sum(cs))

    def build(self, family, n):
        if family == "stack":
            return self.stackfan(n)
        if family.startswith("dag"):
            return self.dag(n, int(family[3:] or 0))
        if family == "chain":
            return self.chain(self.leaf, n)
        if family == "ladder":
            return self.ladder(self.leaf, n)
        if family == "fanin":
            return self.wide(n, 1)
        if family == "wide":                       # n total ops in branches of 200
            return self.wide(max(1, n // 200), 200)
        raise ValueError(family)


def recorded_ops(root):
    """ghost: the grad_fn objects reachable from root (iterative walk, no library code involved)"""
    seen, fns, stack = {id(root)}, {}, [root]
    while stack:
        t = stack.pop()
        if t._grad_fn is not None:
            fns[id(t._grad_fn)] = t._grad_fn
        for ch in t._children:
            if id(ch) not in seen:
                seen.add(id(ch))
                stack.append(ch)
    return fns


def backward_once(family, n, count=True):
    """Build the graph, run root.backward(ones) with every BackwardFunction.__call__ counted. Never raises for library failures."""
    import numpy as np
    from synapgrad.functional import BackwardFunction
    b = Builder()
    root, expected = b.build(family, n)
    fns = recorded_ops(root)
    if family.startswith("dag"):
        b.ops = len(fns)                            # only the ops reachable from the root are part of the differentiable graph
    res = {"family": family, "n": n, "constructed_ops": b.ops, "recorded_ops": len(fns), "recursion_limit": sys.getrecursionlimit()}
    calls = {}
    orig = BackwardFunction.__call__

    def counted(self):
        calls[id(self)] = calls.get(id(self), 0) + 1
        return orig(self)
    seedgrad = b.sg.tensor(np.ones(root.shape), dtype=np.float64)
    gc.collect()
    gc.disable()                                    # the collector's cost depends on heap size, not on backward: paused while timing
    if count:
        BackwardFunction.__call__ = counted
    t0 = time.process_time()                       # CPU time of this process: insensitive to other load on the machine
    try:
        root.backward(seedgrad)
        res["completed"] = True
    except BaseException as e:                      # RecursionError, MemoryError, ... are outcomes of the contract, not harness errors
        if isinstance(e, (KeyboardInterrupt, SystemExit)):
            raise
        res.update(completed=False, exception=type(e).__name__, message=str(e)[:200])
    finally:
        res["seconds"] = time.process_time() - t0
        BackwardFunction.__call__ = orig
        gc.enable()
    if res["completed"]:
        if count:
            res.update(calls_total=sum(calls.values()), calls_max_per_op=max(calls.values(), default=0),
                       ops_never_called=len(set(fns) - set(calls)), calls_to_unrecorded=len(set(calls) - set(fns)))
        g = b.leaf._grad
        res["grad"], res["expected"] = (None if g is None else g.tolist()), expected.tolist()
        res["grad_rel_err"] = None if g is None else float(np.max(np.abs(g - expected) / np.maximum(np.abs(expected), 1e-300)))
    return res


def job_heads(spec):
    """several roots ("heads") over one shared recorded trunk, differentiated one after the other: in EVERY sweep each operation reachable from that root runs
    exactly once, and the leaf accumulates the sum of the heads' derivatives"""
    import numpy as np
    from synapgrad.functional import BackwardFunction
    out = []
    for cfg in spec["configs"]:
        n, heads, mode = (list(cfg) + ["plain"])[:3]
        b = Builder()
        trunk, d = b.chain(b.leaf, n)
        if trunk.ndim != 1:
            trunk = b.F.reshape(trunk, (3,))
        cs = [1.0 + 0.25 * i for i in range(heads)]
        if mode == "same_root":                    # the same root differentiated `heads` times (its own gradient survives each sweep)
            cs = [cs[0]] * heads
            r0 = trunk * b.sg.tensor([cs[0]] * 3, dtype=np.float64)
            roots = [r0] * heads
        else:
            roots = [trunk * b.sg.tensor([c, c, c], dtype=np.float64) for c in cs]
        if mode == "retain_grad":                  # an interior node of the shared trunk keeps its gradient between the sweeps
            trunk.retain_grad()
            if trunk._children and trunk._children[0].requires_grad and not trunk._children[0].is_leaf:
                trunk._children[0].retain_grad()
        import contextlib
        ctx = sys.modules["synapgrad.tensor"].retain_grads if mode == "retain_grads" else contextlib.nullcontext
        calls = {}
        orig = BackwardFunction.__call__

        def counted(self):
            calls[id(self)] = calls.get(id(self), 0) + 1
            return orig(self)
        res = {"trunk_ops": n, "heads": heads, "mode": mode, "sweeps": []}
        BackwardFunction.__call__ = counted
        try:
            for r in roots:
                fns = recorded_ops(r)
                calls.clear()
                try:
                    with ctx():
                        r.backward(b.sg.tensor(np.ones(3), dtype=np.float64))
                except BaseException as e:
                    if isinstance(e, (KeyboardInterrupt, SystemExit)):
                        raise
                    res["sweeps"].append({"completed": False, "exception": type(e).__name__, "message": str(e)[:200]})
                    break
                res["sweeps"].append({"completed": True, "recorded_ops": len(fns), "calls_total": sum(calls.values()), "calls_max_per_op": max(calls.values(), default=0),
                                      "ops_never_called": len(set(fns) - set(calls))})
        finally:
            BackwardFunction.__call__ = orig
        g = b.leaf._grad
        expected = d * sum(cs)
        res["grad"], res["expected"] = (None if g is None else np.asarray(g).tolist()), expected.tolist()
        res["grad_rel_err"] = None if g is None else float(np.max(np.abs(np.asarray(g) - expected) / np.abs(expected)))
        out.append(res)
    return {"configs": out}


def job_dags(spec):
    """many small random DAGs in one child: returns only the failing ones (and the count)"""
    import numpy as np
    bad, n_ok = [], 0
    for sd in range(spec["first_seed"], spec["first_seed"] + spec["count"]):
        n = 3 + sd % spec.get("max_ops", 10)
        r = backward_once("dag%d" % sd, n)
        fail = None
        if not r.get("completed"):
            fail = "backward raised %s: %s" % (r.get("exception"), r.get("message"))
        elif r["calls_total"] != r["recorded_ops"] or r["calls_max_per_op"] > 1 or r["ops_never_called"] or r["calls_to_unrecorded"]:
            fail = "%d recorded ops, %d grad_fn invocations (max per op %d, never called %d)" % (r["recorded_ops"], r["calls_total"], r["calls_max_per_op"], r["ops_never_called"])
        elif r["grad"] is None or not np.all(np.isfinite(r["expected"])):
            fail = "leaf has no gradient" if r["grad"] is None else None
        elif not r["grad_rel_err"] <= 1e-9:
            fail = "leaf gradient %s, forward-mode derivative %s" % (r["grad"], r["expected"])
        if fail:
            bad.append({"seed": sd, "ops": n, "what": fail, "result": r})
        else:
            n_ok += 1
    return {"ok": n_ok, "bad": bad[:20], "n_bad": len(bad)}


def job_graph(spec):
    family, n = spec["family"], spec["n"]
    _phase("backward n=%d" % n)
    res = backward_once(family, n)
    if not res["completed"]:
        _phase("bisect")
        lo, hi = 1, n                              # smallest failing size (informative only; depends on the caller's stack depth)
        while lo < hi:
            mid = (lo + hi) // 2
            if backward_once(family, mid, count=False)["completed"]:
                lo = mid + 1
            else:
                hi = mid
        res["smallest_failing_n"] = lo
    elif spec.get("timing"):
        _phase("timing")
        tn, t2n = [], []
        big = backward_once(family, 2 * n)          # the doubled graph is itself a contract evaluation (counted)
        for _ in range(spec.get("repeats", 3) if big["completed"] else 0):
            tn.append(backward_once(family, n, count=False)["seconds"])
            t2n.append(backward_once(family, 2 * n, count=False)["seconds"])
        res["double"] = big
        if t2n:
            res.update(t_n=min(tn), t_2n=min(t2n), ratio=min(t2n) / max(min(tn), 1e-9))
    _phase("teardown")
    return res


# ----------------------------------------------------------------------------------------------- untracked loops
def live_tensors():
    from synapgrad.tensor import Tensor
    return sum(1 for o in gc.get_objects() if isinstance(o, Tensor))


def footprint(t):
    """bytes reachable from a tensor's attributes (strings, tuples, arrays, other tensors ...; classes, modules and functions excluded)"""
    import types
    seen, todo, total = set(), [t.__dict__], 0
    while todo:
        o = todo.pop()
        if id(o) in seen or isinstance(o, (type, types.ModuleType, types.FunctionType, types.BuiltinFunctionType, types.MethodType)):
            continue
        seen.add(id(o))
        total += sys.getsizeof(o)
        todo.extend(gc.get_referents(o))
        if len(seen) > 200000:
            break
    return total


LIVE_CAP = 10 ** 9


def untracked_loop(mode, length):
    import numpy as np
    import synapgrad as sg
    from synapgrad.tensor import Tensor
    named = mode.endswith("_named")
    if named:
        mode = mode[:-len("_named")]
    gc.collect()
    base = live_tensors()
    track = mode.startswith("no_grad")
    if named:       # operands that carry a name (as layer parameters do)
        w = Tensor(np.array([1.0, 2.0, 3.0], dtype=np.float32), requires_grad=track, name="weight")
        g = Tensor(np.array([0.5, -0.5, 0.25], dtype=np.float32), requires_grad=track, name="rate")
        with (sg.no_grad() if track else nullcontext()):
            fp = []
            w0 = w.data.copy()
            for t in range(length):
                w = w - 0.1 * g           # the running value enters each update once (anything kept per step grows linearly, not exponentially)
                if t in (20, length - 1):
                    fp.append(footprint(w))
        gc.collect()
        res = {"mode": mode + "_named", "loop": length, "operands_alive": 0, "live_tensors_added": live_tensors() - base, "result_requires_grad": bool(w.requires_grad),
               "result_has_grad_fn": w._grad_fn is not None, "value_ok": bool(np.allclose(w.data, w0 - 0.1 * length * g.data, rtol=1e-2)),
               "footprint_after_20_steps": fp[0], "footprint_at_end": fp[-1]}
        del w, g
        gc.collect()
        return res
    w = sg.tensor([1.0, 2.0, 3.0], requires_grad=track)
    g = sg.tensor([0.5, -0.5, 0.25], requires_grad=track)
    w0, refs = w.data.copy(), []
    if mode.endswith("varying"):
        # the Python-number coefficient takes a new value at every step (running averages, decaying rates): nothing may be kept per distinct number
        total = 0.0
        with (sg.no_grad() if track else nullcontext()):
            for t in range(length):
                refs.append(weakref.ref(w))
                c = 0.1 / (1.0 + t)
                total += c
                w = w - c * g
                w = w * (1.0 + 1e-9 * t) / (1.0 + 1e-9 * t)
        gc.collect()
        alive = sum(1 for r in refs if r() is not None)
        res = {"mode": mode, "loop": length, "operands_alive": alive, "live_tensors_added": live_tensors() - base,
               "result_requires_grad": bool(w.requires_grad), "result_has_grad_fn": w._grad_fn is not None,
               "value_ok": bool(np.allclose(w.data, w0 - total * g.data, rtol=1e-2))}
        del w, g, refs
        gc.collect()
        return res
    if mode == "no_grad_inner_exception":
        # an inner no_grad block (a helper's own) is left by an exception that the loop inside the OUTER block catches: everything up to the end of the outer block stays untracked
        w = sg.tensor([1.0, 2.0, 3.0], requires_grad=True)
        g = sg.tensor([0.5, -0.5, 0.25], requires_grad=True)
        w0 = w.data.copy()
        with sg.no_grad():
            for t in range(length):
                refs.append(weakref.ref(w))
                if t % 10 == 0:
                    try:
                        with sg.no_grad():
                            raise ValueError("malformed batch")
                    except ValueError:
                        pass
                w = w - 0.1 * g
        gc.collect()
        alive = sum(1 for r in refs if r() is not None)
        res = {"mode": mode, "loop": length, "operands_alive": alive, "live_tensors_added": live_tensors() - base, "result_requires_grad": bool(w.requires_grad),
               "result_has_grad_fn": w._grad_fn is not None, "value_ok": bool(np.allclose(w.data, w0 - 0.1 * length * g.data, rtol=1e-2))}
        del w, g, refs
        gc.collect()
        return res
    if mode == "no_grad_logging":
        # the logging idiom: every step builds a TRACKED graph (a parameter is involved), then -- inside no_grad -- derives small untracked results from its output and
        # keeps THEM (a list of logged values); the step's graph must be collectable although the logged values stay
        import synapgrad.functional as F
        p = sg.tensor([[1.0, 2.0, 3.0], [0.5, -1.0, 2.0]], requires_grad=True)
        logged = []
        for t in range(length):
            h = F.exp(p * (0.001 * (t % 7))) + p          # tracked: shape (2, 3), no singleton dimension
            refs.append(weakref.ref(h))
            with sg.no_grad():
                logged.append((h.squeeze(), h.squeeze(1), h.reshape((2, 3)), h.flatten(), F.unbind(h, 0)[1], h[0], h.transpose(0, 1), h.sum(), h.detach())[t % 9])
            del h
        gc.collect()
        alive = sum(1 for r in refs if r() is not None)
        bad_flags = any(v.requires_grad or v._grad_fn is not None for v in logged)
        res = {"mode": mode, "loop": length, "operands_alive": alive, "live_tensors_added": min(live_tensors() - base - len(logged), LIVE_CAP), "result_requires_grad": bool(bad_flags),
               "result_has_grad_fn": bool(bad_flags), "value_ok": True}
        del logged, refs
        gc.collect()
        return res
    if mode.endswith("_views"):
        # layout operations (results that may share memory with their operand) in every step: an untracked result must not keep its operand -- or anything else of the step -- alive
        import synapgrad.functional as F
        w = F.reshape(sg.tensor([1.0, 2.0, 3.0, 4.0, 5.0, 6.0], requires_grad=track), (2, 3)) if not track else sg.tensor([[1.0, 2.0, 3.0], [4.0, 5.0, 6.0]], requires_grad=True)
        g = sg.tensor([[0.5, -0.5, 0.25], [0.1, 0.2, -0.3]], requires_grad=track)
        w0 = w.data.copy()
        with (sg.no_grad() if track else nullcontext()):
            nar = 0
            for t in range(length):
                refs.append(weakref.ref(w))
                if t % 100 == 0:            # mostly pure layout steps: consecutive views of views
                    w = w - 0.1 * g
                    nar += 1
                w = F.movedim(F.movedim(w, 0, 1), 1, 0)
                w = F.transpose(F.transpose(w, 0, 1), 1, 0)
                w = F.reshape(F.flatten(w), (2, 3))
                w = w.squeeze().squeeze(1).reshape((2, 3)).flatten(1, 1).movedim(0, 0).transpose(1, 1)        # method forms with arguments for which they are the identity
        gc.collect()
        alive = sum(1 for r in refs if r() is not None)
        res = {"mode": mode, "loop": length, "operands_alive": alive, "live_tensors_added": live_tensors() - base, "result_requires_grad": bool(w.requires_grad),
               "result_has_grad_fn": w._grad_fn is not None, "value_ok": bool(np.allclose(w.data, w0 - 0.1 * nar * g.data, rtol=1e-2))}
        del w, g, refs
        gc.collect()
        return res
    if mode == "no_grad_reused":
        # a stored no_grad object (built while tracking was on) re-used inside an open no_grad block: everything up to the end of the
        # OUTER block is untracked
        ng = sg.no_grad()
        with sg.no_grad():
            for _ in range(length):
                refs.append(weakref.ref(w))
                with ng:
                    w = w - 0.05 * g
                w = w - 0.05 * g
    else:
        with (sg.no_grad() if track else nullcontext()):
            for _ in range(length):
                refs.append(weakref.ref(w))
                w = w - 0.1 * g
    gc.collect()
    alive = sum(1 for r in refs if r() is not None)
    res = {"mode": mode, "loop": length, "operands_alive": alive, "live_tensors_added": live_tensors() - base,
           "result_requires_grad": bool(w.requires_grad), "result_has_grad_fn": w._grad_fn is not None,
           "value_ok": bool(np.allclose(w.data, w0 - 0.1 * length * g.data, rtol=1e-2))}
    del w, g, refs
    gc.collect()
    return res


def job_untracked(spec):
    out = []
    for length in spec["loops"]:
        _phase("untracked %s %d" % (spec["mode"], length))
        out.append(untracked_loop(spec["mode"], length))
    _phase("teardown")
    return {"mode": spec["mode"], "runs": out}


# ------------------------------------------------------------------------------------------------ parent side
def run_job(spec, timeout=240):
    """-> dict with 'status' in ok / crash / timeout and, for ok, the child's result under 'result'."""
    env = dict(os.environ)
    import synapgrad
    repo = os.path.dirname(os.path.dirname(os.path.abspath(synapgrad.__file__)))
    env["PYTHONPATH"] = os.pathsep.join([repo, ROOT] + [p for p in env.get("PYTHONPATH", "").split(os.pathsep) if p and p not in (repo, ROOT)])
    env["PYTHONDONTWRITEBYTECODE"] = "1"
    cmd = [sys.executable, "-m", "vf.rtc.deep", json.dumps(spec)]
    out = {"spec": spec, "cmd": "PYTHONPATH=%s %s -m vf.rtc.deep '%s'" % (env["PYTHONPATH"], sys.executable, json.dumps(spec))}
    try:
        p = subprocess.run(cmd, cwd=ROOT, env=env, capture_output=True, text=True, timeout=timeout)
    except subprocess.TimeoutExpired as e:
        err = e.stderr.decode() if isinstance(e.stderr, bytes) else (e.stderr or "")
        out.update(status="timeout", last_phase=([l for l in err.splitlines() if l.startswith("PHASE ")] or ["?"])[-1])
        return out
    phases = [l[6:] for l in p.stderr.splitlines() if l.startswith("PHASE ")]
    line = next((l for l in reversed(p.stdout.splitlines()) if l.startswith("RESULT ")), None)
    out.update(returncode=p.returncode, last_phase=phases[-1] if phases else "?")
    if line is None:
        out.update(status="crash", stderr_tail=p.stderr[-1500:])
    else:
        out.update(status="ok", result=json.loads(line[7:]))
    return out


if __name__ == "__main__":
    spec = json.loads(sys.argv[1])
    result = {"graph": job_graph, "dags": job_dags, "heads": job_heads}.get(spec["kind"], job_untracked)(spec)
    print("RESULT " + json.dumps(result), flush=True)
    sys.stdout.flush()
    os._exit(0)          # skip interpreter teardown of very deep object graphs; the result is already written
