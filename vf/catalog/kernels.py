"""Kernel-level contracts (cut 1, lower side): every cpu_ops X_backward is verified on its own body against the VJP of the
terms produced by cpu_ops X_forward, independently of the wrapper and the engine.

Contract of a backward kernel:   requires  g.shape == shape(forward(args)), operands in the op's domain
                                 ensures   backward(g, saved...)[i] == vjp(forward, i)(g, args)  with the operand's exact shape
                                 frame     {}  (no argument array is written)
A kernel entry gives: the symbolic array operands (name, shape, domain), fwd(A) -> output array (or tuple whose first element
is the output), bwd(g, A, fwd_result) -> tuple of gradients aligned with the differentiable operands.
"""
import random

import numpy as np

from ..symreal import core, shim
from ..symreal.core import S, symarr, vjp, new_session, Explorer, PathBudgetExceeded, evalarr
from ..symreal.discharge import prove_equal
from ..symreal.harness import domain_constraints, var_names, domain_sample, lay

K = "synapgrad.cpu_ops."


class KCase:
    expect = "kernel"

    def __init__(self, kernel, key, operands, fwd, bwd, diff=None, eps="symbolic", max_paths=1500, scalars=()):
        self.kernel = kernel
        self.name = K + kernel + "_backward"
        self.key = {"kernel": kernel, **key}
        self.operands = operands                # [(name, shape, domain)]
        self.fwd = fwd
        self.bwd = bwd
        self.diff = diff if diff is not None else [o[0] for o in operands]       # names of differentiable operands, in the order bwd returns them
        self.eps = eps
        self.max_paths = max_paths
        self.scalars = scalars
        self.functions = (K + kernel + "_forward", K + kernel + "_backward")
        self.layout = "C"                       # memory layout of the operand arrays (C | F | strided): contracts hold for any

    def run(self, seed):
        res = {"name": self.name, "key": {k: _j(v) for k, v in self.key.items()}, "obligations": 0, "discharged": 0, "backends": {}, "paths": 0, "solver_s": 0.0,
               "failures": [], "undecided": [], "errors": [], "notes": [], "status": "ok", "faithful": 0, "sample": None}
        modes = ["symbolic", "zero"] if self.eps == "symbolic-then-zero" else [self.eps]
        try:
            for mi, mode in enumerate(modes):
                r = dict(res, failures=[], undecided=[], errors=[], notes=[], backends={}, obligations=0, discharged=0)
                ok = self._run(r, seed, mode, probe=mi + 1 < len(modes))
                if ok or mi + 1 == len(modes):
                    res = r
                    break
        except PathBudgetExceeded as e:
            res["errors"].append("%s: %s" % (self.name, e))
        except Exception as e:
            import traceback
            res["errors"].append("%s %s: %s\n%s" % (self.name, self.key, e, traceback.format_exc()[-1500:]))
        return res

    def _run(self, res, seed, eps_mode, probe):
        sess = new_session()
        with shim.symbolic(eps=eps_mode):
            A = {n: symarr(n, sh) for n, sh, dom in self.operands}
            for n, sh, dom in self.operands:
                for e in A[n].ravel():
                    sess.pre.extend(domain_constraints(e.n, dom))
            sc = {}
            for n, dom in self.scalars:
                sc[n] = S(sess.var(n))
                sess.pre.extend(domain_constraints(sc[n].n, dom))
            ex = Explorer(max_paths=self.max_paths)

            def one_path():
                args = {n: lay(A[n].copy(), self.layout) for n in A}
                args.update(sc)
                snaps = {n: args[n].copy() for n in A}
                fr = self.fwd(args)
                out = np.asarray(fr[0] if isinstance(fr, tuple) else fr, dtype=object)
                g = symarr("g", out.shape)
                gs = g.copy()
                try:
                    grads = self.bwd(g, args, fr)
                except PathBudgetExceeded:
                    raise
                except Exception as e:
                    return ("raised", "%s: %s" % (type(e).__name__, str(e)[:200]))
                grads = grads if isinstance(grads, (tuple, list)) else (grads,)
                frame = all(args[n] is not None and all(x is y for x, y in zip(np.asarray(args[n], dtype=object).ravel(), snaps[n].ravel())) for n in A) and \
                    all(x is y for x, y in zip(g.ravel(), gs.ravel()))
                return ("ok", out, gs, [None if x is None else np.asarray(x, dtype=object) for x in grads], frame)
            results = ex.run(one_path)
        res["paths"] = len(results)
        if eps_mode == "zero":
            res["notes"].append("guard-consistent at eps=0 (cpu_ops.epsilon := 0)")
        base = list(sess.pre) + sess.relevant_axioms(list(sess.pre))

        def bump(b):
            res["obligations"] += 1
            res["discharged"] += 1
            res["backends"][b] = res["backends"].get(b, 0) + 1
        for r, pc in results:
            if r[0] == "raised":
                res["obligations"] += 1
                res["failures"].append({"obligation": self.name + ".completes", "what": "kernel raised %s" % r[1], "reproduced": True, "replay": self._native(seed)})
                return True
            _, out, g, grads, frame = r
            if frame:
                bump("syntactic")
            else:
                res["obligations"] += 1
                res["failures"].append({"obligation": self.name + ".frame", "what": "the kernel wrote one of its argument arrays", "reproduced": True, "replay": {"kernel": self.kernel}})
                return True
            path_ax = sess.relevant_axioms(list(pc))
            for name, gi in zip(self.diff, grads):
                if gi is None:
                    continue
                spec = vjp(out, g, A[name])
                oname = "%s.post[%s]" % (self.name, name)
                if gi.shape != spec.shape:
                    res["obligations"] += 1
                    res["failures"].append({"obligation": self.name + ".shape[%s]" % name, "what": "gradient shape %s, operand shape %s" % (gi.shape, spec.shape), "reproduced": True,
                                            "replay": self._native(seed)})
                    return True
                bump("executed")
                for idx in ([()] if spec.ndim == 0 else np.ndindex(*spec.shape)):
                    a, b = S.of(gi[idx]), spec[idx]
                    v = prove_equal(a, b, base + list(pc) + path_ax + sess.relevant_axioms([a.n, a.d, b.n, b.d]), timeout_ms=2000 if probe else 15000, use_cvc5=not probe)
                    res["solver_s"] += v.seconds
                    if v.status == "discharged":
                        bump(v.backend)
                        if res["sample"] is None and v.backend != "syntactic":
                            res["sample"] = {"obligation": oname, "config": res["key"], "element": list(idx), "lhs": str(a.term())[:140], "rhs": str(b.term())[:140], "backend": v.backend}
                        continue
                    if probe:
                        return False
                    res["obligations"] += 1
                    rep = self._native(seed)
                    if rep.get("reproduced"):
                        res["failures"].append({"obligation": oname, "what": "element %s: kernel %s vs VJP %s; native replay against finite differences differs" %
                                                (list(idx), str(a.term())[:100], str(b.term())[:100]), "reproduced": True, "replay": rep, "solver": v.backend, "answer": v.status})
                    else:
                        res["undecided"].append({"obligation": oname + str(list(idx)), "reason": "%s %s; kernel agrees with finite differences natively" % (v.backend, v.status)})
                    return True
        return True

    def _native(self, seed):
        """the real kernels on float64 against central finite differences of the real forward kernel"""
        rng = random.Random("%s|%s|%d" % (self.kernel, self.key, seed))
        rep = {"kernel": self.kernel, "config": {k: _j(v) for k, v in self.key.items()}, "reproduced": False}
        for _ in range(3):
            vals = {n: np.array([domain_sample(rng, dom) for _ in var_names(n, sh)]).reshape(sh) for n, sh, dom in self.operands}
            for n, dom in self.scalars:
                vals[n] = domain_sample(rng, dom)

            def f(v):
                fr = self.fwd({k: (lay(x.copy(), self.layout) if isinstance(x, np.ndarray) else x) for k, x in v.items()})
                return np.asarray(fr[0] if isinstance(fr, tuple) else fr, dtype=np.float64), fr
            try:
                out, fr = f(vals)
                g = np.array([rng.uniform(-2, 2) for _ in range(max(out.size, 1))]).reshape(out.shape)
                grads = self.bwd(g.copy(), {k: (lay(x.copy(), self.layout) if isinstance(x, np.ndarray) else x) for k, x in vals.items()}, fr)
            except Exception as e:
                rep.update({"reproduced": True, "native_exception": "%s: %s" % (type(e).__name__, str(e)[:200])})
                return rep
            grads = grads if isinstance(grads, (tuple, list)) else (grads,)
            for name, gi in zip(self.diff, grads):
                if gi is None:
                    continue
                fd = np.zeros(vals[name].shape)
                for idx in ([()] if fd.ndim == 0 else np.ndindex(*fd.shape)):
                    h = 1e-6 * max(1.0, abs(float(vals[name][idx])))
                    vp = {k: (x.copy() if isinstance(x, np.ndarray) else x) for k, x in vals.items()}
                    vm = {k: (x.copy() if isinstance(x, np.ndarray) else x) for k, x in vals.items()}
                    vp[name][idx] += h
                    vm[name][idx] -= h
                    fd[idx] = float(np.sum(g * (f(vp)[0] - f(vm)[0]))) / (2 * h)
                gi = np.asarray(gi, dtype=np.float64)
                if gi.shape != fd.shape or not np.allclose(gi, fd, rtol=1e-5, atol=1e-7):
                    rep.update({"reproduced": True, "operand": name, "inputs": {k: (v.tolist() if isinstance(v, np.ndarray) else v) for k, v in vals.items()}, "upstream": g.tolist(),
                                "actual": gi.tolist(), "expected_finite_differences": fd.tolist()})
                    return rep
        return rep

    def on_crash(self, why):
        rep = self._native(0)
        if rep.get("reproduced"):
            return {"failure": {"obligation": self.name + ".post", "what": "symbolic run crashed (%s); natively the kernel disagrees with finite differences" % why, "reproduced": True, "replay": rep}}
        return {"native": "agrees"}


def _j(v):
    if isinstance(v, (list, tuple)):
        return [_j(x) for x in v]
    if isinstance(v, (str, int, float, bool)) or v is None:
        return v
    return repr(v)


def kernel_layout_variants(cs, tier):
    """the same kernel contracts with operand arrays in Fortran order / as strided views (each-value coverage of the configuration
    fields in quick, everything in thorough)"""
    import copy
    out, seen = [], {}
    for i, c in enumerate(cs):
        if not any(len(sh) >= 2 for _, sh, _ in c.operands):
            continue
        if tier != "thorough":
            sn = seen.setdefault(c.kernel, set())
            new = {(k, repr(v)) for k, v in c.key.items()} - sn
            if not new:
                continue
            sn |= new
        for l in (("F", "strided") if tier == "thorough" else (("F",) if i % 3 else ("strided",))):
            v = copy.copy(c)
            v.layout = l
            v.key = dict(c.key, operand_layout=l)
            out.append(v)
    return out


def tensor_kernels(tier):
    from synapgrad import cpu_ops as C
    ANY = "any"
    cs = []

    def add(kernel, key, ops, fwd, bwd, **kw):
        cs.append(KCase(kernel, key, ops, fwd, bwd, **kw))
    for sa, sb in [((2, 3), (3,)), ((2, 1), (1, 3)), ((), (2,)), ((2, 3, 2), (3, 1)), ((3,), (2, 3))]:
        add("add", {"shapes": [sa, sb]}, [("a", sa, ANY), ("b", sb, ANY)], lambda A: C.add_forward(A["a"], A["b"]), lambda g, A, o: C.add_backward(g, A["a"].shape, A["b"].shape))
        add("mul", {"shapes": [sa, sb]}, [("a", sa, ANY), ("b", sb, ANY)], lambda A: C.mul_forward(A["a"], A["b"]), lambda g, A, o: C.mul_backward(g, A["a"], A["b"]))
    for sa, sb in [((2, 3), (3, 2)), ((2, 2, 3), (3, 2)), ((2, 3), (2, 3, 1)), ((2, 1, 2, 3), (3, 3, 2))]:
        add("matmul", {"shapes": [sa, sb]}, [("a", sa, ANY), ("b", sb, ANY)], lambda A: C.matmul_forward(A["a"], A["b"]), lambda g, A, o: C.matmul_backward(g, A["a"], A["b"]))
    for sa in [(2, 2), (2,), (2, 1), ()]:
        add("addmm", {"a_shape": sa}, [("a", sa, ANY), ("b", (2, 3), ANY), ("c", (3, 2), ANY)], lambda A: C.addmm_forward(A["a"], A["b"], A["c"]),
            lambda g, A, o: C.addmm_backward(g, A["a"], A["b"], A["c"]))
    for n in [-2, -1, 0, 1, 2, 3, 0.5, -0.5, 1.5, 0.3]:
        dom = "pos" if float(n) != int(n) else ("nonzero" if n <= 0 else ANY)
        add("pow", {"n": n}, [("a", (2, 2), dom)], lambda A, n=n: C.pow_forward(A["a"], n), lambda g, A, o, n=n: C.pow_backward(g, A["a"], n))
    for base in [0.5, 2, 10]:
        add("rpow", {"base": base}, [("a", (3,), ANY)], lambda A, base=base: C.rpow_forward(A["a"], base), lambda g, A, o, base=base: C.rpow_backward(g, o, base))
    for s in [(), (3,), (2, 3)]:
        add("neg", {"shape": s}, [("a", s, ANY)], lambda A: C.neg_forward(A["a"]), lambda g, A, o: C.neg_backward(g))
        add("clone", {"shape": s}, [("a", s, ANY)], lambda A: C.clone_forward(A["a"]), lambda g, A, o: C.clone_backward(g))
        add("exp", {"shape": s}, [("a", s, ANY)], lambda A: C.exp_forward(A["a"]), lambda g, A, o: C.exp_backward(g, o))
        add("log", {"shape": s}, [("a", s, "pos")], lambda A: C.log_forward(A["a"]), lambda g, A, o: C.log_backward(g, A["a"]))
        add("sqrt", {"shape": s}, [("a", s, "pos")], lambda A: C.sqrt_forward(A["a"]), lambda g, A, o: C.sqrt_backward(g, o))
    from .tensor_ops import INDEX_CATALOGUE, index_repr, dims_for
    for shape, ix, tag in INDEX_CATALOGUE[:: (1 if tier == "thorough" else 2)]:
        add("slice", {"shape": shape, "index": index_repr(ix)}, [("a", shape, ANY)], lambda A, ix=ix: C.slice_forward(A["a"], ix), lambda g, A, o, ix=ix: C.slice_backward(g, A["a"].shape, ix))
    for shapes, axis in [([(2, 3), (1, 3)], 0), ([(2, 1), (2, 3)], -1), ([(2,), (3,), (1,)], 0), ([(2, 3, 1), (2, 3, 2)], 2)]:
        names = ["t%d" % i for i in range(len(shapes))]
        secs = list(np.cumsum([s[axis] for s in shapes])[:-1])
        add("concat", {"shapes": shapes, "axis": axis}, [(n, s, ANY) for n, s in zip(names, shapes)], lambda A, names=names, axis=axis: C.concat_forward([A[n] for n in names], axis),
            lambda g, A, o, secs=secs, axis=axis: tuple(C.concat_backward(g, secs, axis)))
    for shape, k in [((3,), 2), ((2, 3), 3)]:
        for axis in range(-(len(shape) + 1), len(shape) + 1):
            names = ["t%d" % i for i in range(k)]
            add("stack", {"shape": shape, "count": k, "axis": axis}, [(n, shape, ANY) for n in names], lambda A, names=names, axis=axis: C.stack_forward([A[n] for n in names], axis),
                lambda g, A, o, axis=axis: tuple(C.stack_backward(g, axis)))
    for shape in [(3,), (2, 3), (2, 3, 2)]:
        for axis in range(-len(shape), len(shape)):
            for index in range(shape[axis]):
                add("unbind", {"shape": shape, "axis": axis, "index": index}, [("a", shape, ANY)], lambda A, axis=axis, index=index: C.unbind_forward(A["a"], axis)[index],
                    lambda g, A, o, axis=axis, index=index: C.unbind_backward(g, A["a"].shape, axis, index))
    for op in ("sum", "mean", "max", "min"):
        fw, bw = getattr(C, op + "_forward"), getattr(C, op + "_backward")
        for shape in [(3,), (2, 3), (2, 2, 2)]:
            for dim in dims_for(len(shape), tier):
                if op in ("max", "min") and isinstance(dim, tuple):
                    continue            # known finding C01-maxmin-tuple-dim is reported at the public operation
                for keep in (False, True):
                    if op in ("sum", "mean"):
                        b = lambda g, A, o, bw=bw, dim=dim, keep=keep: bw(g, A["a"].shape, dim, keep)
                    else:
                        b = lambda g, A, o, bw=bw, dim=dim, keep=keep: bw(g, A["a"], dim, keep)
                    add(op, {"shape": shape, "axis": dim, "keepdims": keep}, [("a", shape, ANY)], lambda A, fw=fw, dim=dim, keep=keep: fw(A["a"], dim, keep), b, max_paths=600)
    for shape, axis in [((1, 3), 0), ((2, 1), 1), ((1, 2, 1), None), ((1, 2, 1), (0, 2)), ((2, 3), 0)]:
        add("squeeze", {"shape": shape, "axis": axis}, [("a", shape, ANY)], lambda A, axis=axis: C.squeeze_forward(A["a"], axis), lambda g, A, o: C.squeeze_backward(g, A["a"].shape))
    for shape, axis in [((3,), 0), ((3,), -1), ((2, 3), 1), ((2, 3), (0, 1)), ((), 0)]:
        add("unsqueeze", {"shape": shape, "axis": axis}, [("a", shape, ANY)], lambda A, axis=axis: C.unsqueeze_forward(A["a"], axis), lambda g, A, o, axis=axis: C.unsqueeze_backward(g, axis))
    for shape, tgt in [((6,), (2, 3)), ((2, 3), (-1,)), ((2, 3), (3, -1)), ((), (1,))]:
        add("reshape", {"shape": shape, "target": tgt}, [("a", shape, ANY)], lambda A, tgt=tgt: C.reshape_forward(A["a"], tgt), lambda g, A, o: C.reshape_backward(g, A["a"].shape))
    for shape in [(2, 3), (2, 3, 4)]:
        n = len(shape)
        for s_ in range(-n, n):
            for d in range(-n, n):
                add("movedim", {"shape": shape, "source": s_, "destination": d}, [("a", shape, ANY)], lambda A, s_=s_, d=d: C.movedim_forward(A["a"], s_, d),
                    lambda g, A, o, s_=s_, d=d: C.movedim_backward(g, s_, d))
                add("transpose", {"shape": shape, "axis0": s_, "axis1": d}, [("a", shape, ANY)], lambda A, s_=s_, d=d: C.transpose_forward(A["a"], s_, d),
                    lambda g, A, o, s_=s_, d=d: C.transpose_backward(g, s_, d))
    for shape in [(5,), (2, 5), (4, 2)]:
        for dim in range(len(shape)):
            for size in range(1, shape[dim] + 1):
                for step in (1, 2, 3):
                    add("unfold_dim", {"shape": shape, "dimension": dim, "size": size, "step": step}, [("a", shape, ANY)],
                        lambda A, dim=dim, size=size, step=step: C.unfold_dim_forward(A["a"], dim, size, step),
                        lambda g, A, o, dim=dim, size=size, step=step: C.unfold_dim_backward(g, A["a"].shape, dim, size, step))
    return cs + kernel_layout_variants(cs, tier)


def nn_kernels(tier):
    from synapgrad import cpu_ops as C
    from .nn_ops import REP_1D, geoms_1d, out_len
    ANY = "any"
    cs = []

    def add(kernel, key, ops, fwd, bwd, **kw):
        cs.append(KCase(kernel, key, ops, fwd, bwd, **kw))
    ALPHA, SCALE = 1.6732632423543772848170429916717, 1.0507009873554804934193349852946
    for s in [(), (3,), (2, 2)]:
        add("relu", {"shape": s}, [("a", s, ANY)], lambda A: C.relu_forward(A["a"]), lambda g, A, o: C.relu_backward(g, A["a"]))
        add("leaky_relu", {"shape": s, "slope": "symbolic"}, [("a", s, ANY)], lambda A: C.leaky_relu_forward(A["a"], A["slope"]), lambda g, A, o: C.leaky_relu_backward(g, A["a"], A["slope"]),
            scalars=[("slope", (0, 1))], diff=["a"])
        add("selu", {"shape": s}, [("a", s, ANY)], lambda A: C.selu_forward(A["a"], ALPHA, SCALE), lambda g, A, o: C.selu_backward(g, A["a"], ALPHA, SCALE))
        add("tanh", {"shape": s}, [("a", s, ANY)], lambda A: C.tanh_forward(A["a"]), lambda g, A, o: C.tanh_backward(g, o))
        add("sigmoid", {"shape": s}, [("a", s, ANY)], lambda A: C.sigmoid_forward(A["a"]), lambda g, A, o: C.sigmoid_backward(g, o))
    for s in [(3,), (2, 3), (2, 2, 2)]:
        for axis in range(-len(s), len(s)):
            add("softmax", {"shape": s, "axis": axis}, [("a", s, ANY)], lambda A, axis=axis: C.softmax_forward(A["a"], axis), lambda g, A, o, axis=axis: C.softmax_backward(g, o, axis))
            add("log_softmax", {"shape": s, "axis": axis}, [("a", s, ANY)], lambda A, axis=axis: C.log_softmax_forward(A["a"], axis), lambda g, A, o, axis=axis: C.log_softmax_backward(g, o, axis))
    for s in [(3,), (2, 2)]:
        add("mse_loss", {"shape": s}, [("p", s, ANY), ("t", s, ANY)], lambda A: C.mse_loss_forward(A["p"], A["t"]), lambda g, A, o: C.mse_loss_backward(g, A["p"], A["t"]), diff=["p"])
        add("bce_loss", {"shape": s}, [("p", s, "unit"), ("t", s, "unit")], lambda A: C.bce_loss_forward(A["p"], A["t"]), lambda g, A, o: C.bce_loss_backward(g, A["p"], A["t"]),
            diff=["p"], eps="symbolic-then-zero")
        add("bce_with_logits_loss", {"shape": s}, [("p", s, ANY), ("t", s, "unit")], lambda A: C.bce_with_logits_loss_forward(A["p"], A["t"]),
            lambda g, A, o: C.bce_with_logits_loss_backward(g, A["p"], A["t"]), diff=["p"], eps="symbolic-then-zero")
    for (N, Cc), lab in [((2, 3), [2, 0]), ((3, 2), [1, 1, 0]), ((1, 2), [0])]:
        y = np.array(lab)
        add("nll_loss", {"shape": (N, Cc), "labels": lab}, [("p", (N, Cc), ANY)], lambda A, y=y: C.nll_loss_forward(A["p"], y), lambda g, A, o, y=y: C.nll_loss_backward(g, A["p"], y))
        add("cross_entropy_loss", {"shape": (N, Cc), "labels": lab}, [("p", (N, Cc), ANY)], lambda A, y=y: C.cross_entropy_loss_forward(A["p"], y),
            lambda g, A, o, y=y: C.cross_entropy_loss_backward(g, A["p"], y), eps="symbolic-then-zero")
    g1 = geoms_1d([3, 4, 5, 6], [1, 2, 3], [1, 2, 3], [0, 1], [1, 2], pool=True)[:: (1 if tier == "thorough" else 3)]
    for (L, k, s, p, d) in g1:
        for kind in ("max", "avg"):
            fw, bw = getattr(C, kind + "_pool1d_forward"), getattr(C, kind + "_pool1d_backward")
            add(kind + "_pool1d", {"L": L, "kernel": k, "stride": s, "padding": p, "dilation": d}, [("a", (1, 1, L), ANY)], lambda A, fw=fw, k=k, s=s, p=p, d=d: fw(A["a"], k, s, p, d),
                lambda g, A, o, bw=bw, k=k, s=s, p=p, d=d: bw(g, k, s, p, d, *o[1:]), max_paths=2500)
    g1c = geoms_1d([3, 4, 5], [1, 2, 3], [1, 2], [0, 1, 2], [1, 2])[:: (1 if tier == "thorough" else 3)]
    for gi, (L, k, s, p, d) in enumerate(g1c):
        bias = gi % 2 == 0
        ops = [("x", (2, 2, L), ANY), ("w", (2, 2, k), ANY)] + ([("b", (2,), ANY)] if bias else [])
        add("conv1d", {"L": L, "kernel": k, "stride": s, "padding": p, "dilation": d, "bias": bias}, ops,
            lambda A, s=s, p=p, d=d, bias=bias: C.conv1d_forward(A["x"], A["w"], A["b"] if bias else None, s, p, d),
            lambda g, A, o, s=s, p=p, d=d, bias=bias: [x for x in C.conv1d_backward(g, A["x"].shape, A["w"], A["b"] if bias else None, s, p, d, *o[1:]) if x is not None])
    R = REP_1D
    for i in range(0, len(R), 2 if tier == "quick" else 1):
        (H, kh, sh, ph, dh), (W, kw, sw, pw, dw) = R[i], R[(i + 3) % len(R)]
        ops = [("x", (1, 2, H, W), ANY), ("w", (2, 2, kh, kw), ANY), ("b", (2,), ANY)]
        add("conv2d", {"HW": (H, W), "kernel": (kh, kw), "stride": (sh, sw), "padding": (ph, pw), "dilation": (dh, dw)}, ops,
            lambda A, st=(sh, sw), pd=(ph, pw), dl=(dh, dw): C.conv2d_forward(A["x"], A["w"], A["b"], st, pd, dl),
            lambda g, A, o, st=(sh, sw), pd=(ph, pw), dl=(dh, dw): C.conv2d_backward(g, A["x"].shape, A["w"], A["b"], st, pd, dl, *o[1:]))
        if ph <= kh // 2 and pw <= kw // 2:
            nwin = out_len(H, kh, sh, ph, dh) * out_len(W, kw, sw, pw, dw)
            for kind in ("max", "avg"):
                if kind == "max" and (2 ** (kh * kw - 1)) ** nwin > 2000:
                    continue
                fw, bw = getattr(C, kind + "_pool2d_forward"), getattr(C, kind + "_pool2d_backward")
                add(kind + "_pool2d", {"HW": (H, W), "kernel": (kh, kw), "stride": (sh, sw), "padding": (ph, pw), "dilation": (dh, dw)}, [("a", (1, 1, H, W), ANY)],
                    lambda A, fw=fw, k=(kh, kw), s=(sh, sw), p=(ph, pw), d=(dh, dw): fw(A["a"], k, s, p, d),
                    lambda g, A, o, bw=bw, k=(kh, kw), s=(sh, sw), p=(ph, pw), d=(dh, dw): bw(g, k, s, p, d, *o[1:]), max_paths=3000)
    # batch norm: the backward kernel in its three regimes
    import itertools
    for shape in [(3, 2), (2, 2, 2)]:
        Cn = shape[1]
        for training, affine, running in itertools.product([True, False], repeat=3):
            ops = [("x", shape, ANY)] + ([("gamma", (Cn,), ANY), ("beta", (Cn,), ANY)] if affine else []) + ([("rm", (Cn,), ANY), ("rv", (Cn,), "pos")] if running else [])

            def fwd(A, training=training, affine=affine, running=running):
                return C.batch_norm_forward(A["x"], A["gamma"] if affine else None, A["beta"] if affine else None, A["rm"] if running else None, A["rv"] if running else None,
                                            training, A["mom"], A["eps"])

            def bwd(g, A, o, training=training, affine=affine, running=running):
                r = C.batch_norm_backward(g, A["x"], A["gamma"] if affine else None, A["beta"] if affine else None, running, training, A["eps"], o[3], o[4])
                return [x for x in r if x is not None]
            add("batch_norm", {"shape": shape, "training": training, "affine": affine, "running_stats": running}, ops, fwd, bwd,
                diff=["x"] + (["gamma", "beta"] if affine else []), scalars=[("eps", "pos"), ("mom", "unit")])
    return cs + kernel_layout_variants(cs, tier)
