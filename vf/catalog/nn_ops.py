"""Configuration catalogue for the differentiable nn building blocks (nn/functional.py, layers, losses, activations)."""
import itertools

import numpy as np

from ..symreal.harness import VCase, Leaf, Scalar

NF_ = "synapgrad.nn.functional."
K_ = "synapgrad.cpu_ops."
CT_ = "synapgrad.conv_tools."


def NF():
    import synapgrad.nn.functional as f
    return f


def nn():
    import synapgrad.nn as m
    return m


def out_len(L, k, s, p, d):
    return (L + 2 * p - d * (k - 1) - 1) // s + 1


# --------------------------------------------------------------------------------------------- activations
def activation_cases(tier):
    f = NF()
    m = nn()
    cases = []
    shapes = [(), (3,), (2, 2)] + ([(2, 3), (1, 2, 2)] if tier == "thorough" else [])
    acts = [("relu", f.relu, m.ReLU), ("selu", f.selu, m.SELU), ("tanh", f.tanh, m.Tanh), ("sigmoid", f.sigmoid, m.Sigmoid)]
    for name, fn, mod in acts:
        fns = (NF_ + name, K_ + name + "_forward", K_ + name + "_backward")
        for s in shapes:
            if name == "selu" and len(s) == 2 and tier != "thorough" and s != (2, 2):
                continue
            cases.append(VCase("nn.functional." + name, {"op": "nn.functional." + name, "shape": s}, [Leaf("a", s)],
                               lambda T, K, fn=fn: fn(T["a"]), functions=fns))
        cases.append(VCase("nn." + mod.__name__, {"op": "nn." + mod.__name__, "shape": (3,)}, [Leaf("a", (3,))],
                           lambda T, K, mod=mod: mod()(T["a"]), functions=("synapgrad.nn.activations.%s.forward" % mod.__name__,)))
    fns = (NF_ + "leaky_relu", K_ + "leaky_relu_forward", K_ + "leaky_relu_backward")
    for s in shapes:
        cases.append(VCase("nn.functional.leaky_relu", {"op": "nn.functional.leaky_relu", "shape": s, "slope": "symbolic in (0,1)"},
                           [Leaf("a", s)], lambda T, K: f.leaky_relu(T["a"], K["slope"]), scalars=[Scalar("slope", (0, 1))], functions=fns))
    # the slope is a real parameter: negative slopes (slope -1 is |x|), slopes above 1 and 0 are legal too
    for dom, label in (((-3, 0), "symbolic in (-3,0)"), ((1, 4), "symbolic in (1,4)")):
        cases.append(VCase("nn.functional.leaky_relu", {"op": "nn.functional.leaky_relu", "shape": (2, 2), "slope": label},
                           [Leaf("a", (2, 2))], lambda T, K: f.leaky_relu(T["a"], K["slope"]), scalars=[Scalar("slope", dom)], functions=fns))
    for sl in (-1.0, 0.0, 1.0):
        cases.append(VCase("nn.LeakyReLU", {"op": "nn.LeakyReLU", "shape": (3,), "slope": sl}, [Leaf("a", (3,))],
                           lambda T, K, sl=sl: m.LeakyReLU(sl)(T["a"]), functions=("synapgrad.nn.activations.LeakyReLU.forward",)))
    cases.append(VCase("nn.functional.leaky_relu", {"op": "nn.functional.leaky_relu", "shape": (3,), "slope": "default"},
                       [Leaf("a", (3,))], lambda T, K: f.leaky_relu(T["a"]), functions=fns))
    cases.append(VCase("nn.LeakyReLU", {"op": "nn.LeakyReLU", "shape": (3,), "slope": 0.2}, [Leaf("a", (3,))],
                       lambda T, K: m.LeakyReLU(0.2)(T["a"]), functions=("synapgrad.nn.activations.LeakyReLU.forward",)))
    # softmax / log_softmax: every dim of every rank 1-3 shape
    sshapes = [(3,), (2, 3), (3, 2), (2, 2, 2)] + ([(2, 3, 2), (1, 3), (4,)] if tier == "thorough" else [(1, 3)])
    for name, mod in (("softmax", m.Softmax), ("log_softmax", m.LogSoftmax)):
        fns = (NF_ + name, K_ + name + "_forward", K_ + name + "_backward")
        for s in sshapes:
            n = len(s)
            for dim in range(-n, n):
                cases.append(VCase("nn.functional." + name, {"op": "nn.functional." + name, "shape": s, "dim": dim, "rank": n,
                                                             "dim_norm": dim % n},
                                   [Leaf("a", s)], lambda T, K, name=name, dim=dim: getattr(f, name)(T["a"], dim), functions=fns,
                                   timeout_ms=20000))
        cases.append(VCase("nn." + mod.__name__, {"op": "nn." + mod.__name__, "shape": (2, 3), "dim": 1, "rank": 2, "dim_norm": 1}, [Leaf("a", (2, 3))],
                           lambda T, K, mod=mod: mod(dim=1)(T["a"])))
    return cases


# --------------------------------------------------------------------------------------------------- losses
def label_vectors(N, C, tier):
    if N * C <= 6 or tier == "thorough":
        return [list(t) for t in itertools.product(range(C), repeat=N)]
    return [[i % C for i in range(N)], [(C - 1 - i) % C for i in range(N)], [0] * N, [C - 1] * N]


def loss_cases(tier):
    f = NF()
    m = nn()
    cases = []
    reductions = ["mean", "sum", "none"]
    # MSE: symmetric, both arguments receive gradients
    fns = (NF_ + "mse_loss", K_ + "mse_loss_forward", K_ + "mse_loss_backward", "synapgrad.nn.losses.Loss.__call__")
    for s in [(3,), (2, 2), ()]:
        for fl in [(True, True), (True, False), (False, True)]:
            cases.append(VCase("nn.functional.mse_loss", {"op": "nn.functional.mse_loss", "shape": s, "requires_grad": list(fl)},
                               [Leaf("p", s, "any", fl[0]), Leaf("t", s, "any", fl[1])], lambda T, K: f.mse_loss(T["p"], T["t"]), functions=fns))
    for sp, st in [((2,), (2, 2)), ((2, 2), (1, 2)), ((), (2,))]:
        cases.append(VCase("nn.functional.mse_loss", {"op": "nn.functional.mse_loss", "shape": sp, "target_shape": st, "broadcast": True},
                           [Leaf("p", sp), Leaf("t", st)], lambda T, K: f.mse_loss(T["p"], T["t"]), functions=fns))
    for red in reductions:
        for fl in [(True, True), (True, False)]:
            cases.append(VCase("nn.MSELoss", {"op": "nn.MSELoss", "shape": (2, 2), "reduction": red, "requires_grad": list(fl)},
                               [Leaf("p", (2, 2), "any", fl[0]), Leaf("t", (2, 2), "any", fl[1])],
                               lambda T, K, red=red: m.MSELoss(reduction=red)(T["p"], T["t"]), functions=fns))
    # NLL / cross entropy with integer labels
    for name, fname, mod in (("nll_loss", "nll_loss", m.NLLLoss), ("cross_entropy", "cross_entropy_loss", m.CrossEntropyLoss)):
        fns = (NF_ + name, K_ + fname + "_forward", K_ + fname + "_backward", "synapgrad.nn.losses.Loss.__call__")
        for (N, C) in [(1, 2), (2, 2), (2, 3), (3, 2)] + ([(3, 3)] if tier == "thorough" else []):
            for lab in label_vectors(N, C, tier):
                cases.append(VCase("nn.functional." + name, {"op": "nn.functional." + name, "shape": (N, C), "labels": lab},
                                   [Leaf("p", (N, C))],
                                   lambda T, K, name=name, lab=lab: getattr(f, name)(T["p"], _labels(lab)), functions=fns,
                                   eps="symbolic-then-zero", timeout_ms=20000))
        for red in reductions:
            cases.append(VCase("nn." + mod.__name__, {"op": "nn." + mod.__name__, "shape": (2, 3), "labels": [2, 0], "reduction": red},
                               [Leaf("p", (2, 3))], lambda T, K, mod=mod, red=red: mod(reduction=red)(T["p"], _labels([2, 0])), functions=fns,
                               eps="symbolic-then-zero", timeout_ms=20000))
    # BCE on probabilities, BCE with logits; targets symbolic in (0,1) (soft labels) and hard 0/1
    for name, fname, mod, dom in (("binary_cross_entropy", "bce_loss", m.BCELoss, "unit"),
                                  ("binary_cross_entropy_with_logits", "bce_with_logits_loss", m.BCEWithLogitsLoss, "any")):
        fns = (NF_ + name, K_ + fname + "_forward", K_ + fname + "_backward", "synapgrad.nn.losses.Loss.__call__")
        for s in [(2,), (2, 1), ()]:
            cases.append(VCase("nn.functional." + name, {"op": "nn.functional." + name, "shape": s, "targets": "symbolic in (0,1)"},
                               [Leaf("p", s, dom), Leaf("t", s, "unit", False)], lambda T, K, name=name: getattr(f, name)(T["p"], T["t"]),
                               functions=fns, eps="symbolic-then-zero", timeout_ms=20000))
        # operands of different (broadcastable) shapes: the wrapper may refuse them (as mse_loss and PyTorch do); whatever it accepts must have the exact VJP
        for sp, st in [((2,), (2, 2)), ((2, 1), (2, 2)), ((), (2,)), ((2, 2), (2,)), ((2, 2), (1, 2)), ((1,), (2, 1))]:
            cases.append(VCase("nn.functional." + name, {"op": "nn.functional." + name, "shape": sp, "target_shape": st, "targets": "symbolic in (0,1)", "broadcast": True},
                               [Leaf("p", sp, dom), Leaf("t", st, "unit", False)], lambda T, K, name=name: getattr(f, name)(T["p"], T["t"]),
                               functions=fns, eps="symbolic-then-zero", timeout_ms=20000))
        for tv in ([0.0, 1.0], [1.0, 1.0], [0.0, 0.0]):
            cases.append(VCase("nn.functional." + name, {"op": "nn.functional." + name, "shape": (2,), "targets": tv},
                               [Leaf("p", (2,), dom)], lambda T, K, name=name, tv=tv: getattr(f, name)(T["p"], _const(tv)),
                               functions=fns, eps="symbolic-then-zero", timeout_ms=20000))
        for red in reductions:
            cases.append(VCase("nn." + mod.__name__, {"op": "nn." + mod.__name__, "shape": (2,), "reduction": red, "targets": [0.0, 1.0]},
                               [Leaf("p", (2,), dom)], lambda T, K, mod=mod, red=red: mod(reduction=red)(T["p"], _const([0.0, 1.0])),
                               functions=fns, eps="symbolic-then-zero", timeout_ms=20000))
    return cases


def _labels(lab):
    from synapgrad.tensor import Tensor
    return Tensor(np.array(lab, dtype=np.int32))


def _const(v):
    from synapgrad.tensor import Tensor
    import sys
    tm = sys.modules["synapgrad.tensor"]
    if tm.default_type__ is object:
        from ..symreal.core import lift_arr
        return Tensor(lift_arr(np.array(v, dtype=object)))       # exact rationals, so that constant arithmetic is not rounded
    return Tensor(np.array(v, dtype=np.float64))


# ------------------------------------------------------------------------------------------- linear
def linear_cases(tier):
    f = NF()
    m = nn()
    cases = []
    fns = (NF_ + "linear", K_ + "addmm_forward", K_ + "addmm_backward", K_ + "matmul_forward", K_ + "matmul_backward")
    for (N, I, O) in [(2, 3, 2), (1, 2, 3), (3, 1, 1)]:
        for bias in (True, False):
            flagsets = [fl for fl in itertools.product([True, False], repeat=3 if bias else 2) if any(fl)] if (N, I, O) == (2, 3, 2) else [(True,) * (3 if bias else 2)]
            for fl in flagsets:
                leaves = [Leaf("x", (N, I), "any", fl[0]), Leaf("w", (O, I), "any", fl[1])]
                if bias:
                    leaves.append(Leaf("b", (O,), "any", fl[2]))
                cases.append(VCase("nn.functional.linear", {"op": "nn.functional.linear", "N": N, "in": I, "out": O, "bias": bias, "requires_grad": list(fl)},
                                   leaves, lambda T, K, bias=bias: f.linear(T["x"], T["w"], T["b"] if bias else None), functions=fns))

    # inputs of other ranks (a single sample; sequences / images of feature vectors): whatever the forward accepts must have the exact VJP
    for xs in [(3,), (2, 2, 3), (2, 1, 2, 3), (1, 1, 3)]:
        for bias in (True, False):
            leaves = [Leaf("x", xs), Leaf("w", (2, 3))] + ([Leaf("b", (2,))] if bias else [])
            cases.append(VCase("nn.functional.linear", {"op": "nn.functional.linear", "x_shape": xs, "in": 3, "out": 2, "bias": bias},
                               leaves, lambda T, K, bias=bias: f.linear(T["x"], T["w"], T["b"] if bias else None), functions=fns))

    # a bias that is not a vector (per sample, per position) broadcast against the product, the input tracked or plain data
    for xs, bs, xflag in [((2, 3), (2, 2), True), ((2, 3), (2, 2), False), ((2, 3), (1, 2), False), ((2, 2, 3), (2, 2), False), ((2, 3), (2, 1), False)]:
        cases.append(VCase("nn.functional.linear", {"op": "nn.functional.linear", "x_shape": xs, "bias_shape": bs, "x_requires_grad": xflag, "in": 3, "out": 2, "bias": True},
                           [Leaf("x", xs, "any", xflag), Leaf("w", (2, 3)), Leaf("b", bs)], lambda T, K: f.linear(T["x"], T["w"], T["b"]), functions=fns))

    def layer(T, K, cls, bias, I, O):
        from synapgrad.nn.modules import Parameter
        L = cls(I, bias=bias) if cls is m.Neuron else cls(I, O, bias=bias)
        L.weight = Parameter(T["w"])
        T["w"] = L.weight
        if bias:
            L.bias = Parameter(T["b"])
            T["b"] = L.bias
        return L(T["x"])
    for cls, I, O in ((m.Linear, 3, 2), (m.Neuron, 3, 1)):
        for bias in (True, False):
            leaves = [Leaf("x", (2, I)), Leaf("w", (O, I))] + ([Leaf("b", (O,))] if bias else [])
            cases.append(VCase("nn." + cls.__name__, {"op": "nn." + cls.__name__, "bias": bias}, leaves,
                               lambda T, K, cls=cls, bias=bias, I=I, O=O: layer(T, K, cls, bias, I, O),
                               functions=("synapgrad.nn.layers.%s.forward" % cls.__name__,)))
    return cases


# ------------------------------------------------------------------------------------ conv / pool geometry
def geoms_1d(Ls, ks, ss, ps, ds, pool=False):
    out = []
    for L, k, s, p, d in itertools.product(Ls, ks, ss, ps, ds):
        if pool and p > k // 2:
            continue
        if not pool and p > d * (k - 1):
            continue
        if out_len(L, k, s, p, d) >= 1 and d * (k - 1) + 1 <= L + 2 * p:
            out.append((L, k, s, p, d))
    return out


REP_1D = [  # representative per-axis geometries: (L, k, s, p, d)
    (3, 1, 1, 0, 1), (3, 2, 1, 0, 1), (4, 2, 2, 0, 1), (4, 3, 1, 1, 1), (5, 2, 3, 0, 1), (5, 3, 2, 0, 1),  # non-tiling, stride>kernel
    (4, 2, 1, 1, 1), (5, 2, 1, 0, 2), (5, 3, 1, 2, 2), (4, 2, 3, 1, 1), (3, 3, 1, 1, 1), (6, 2, 2, 0, 2),
]


def conv_cases(tier):
    f = NF()
    m = nn()
    cases = []
    fns1 = (NF_ + "conv1d", K_ + "conv1d_forward", K_ + "conv1d_backward", CT_ + "extract_windows", CT_ + "place_windows",
            CT_ + "get_conv1d_output_size")
    Ls = [3, 4, 5, 6] if tier == "quick" else [3, 4, 5, 6, 7, 8]
    g1 = geoms_1d(Ls, [1, 2, 3], [1, 2, 3], [0, 1, 2], [1, 2])
    for gi, (L, k, s, p, d) in enumerate(g1):
        for (N, Ci, Co), bias in ([((1, 1, 1), gi % 2 == 0)] + ([((2, 2, 2), True), ((1, 2, 1), False)] if gi % 9 == 0 or tier == "thorough" else [])):
            leaves = [Leaf("x", (N, Ci, L)), Leaf("w", (Co, Ci, k))] + ([Leaf("b", (Co,))] if bias else [])
            cases.append(VCase("nn.functional.conv1d", {"op": "nn.functional.conv1d", "N": N, "C_in": Ci, "C_out": Co, "L": L, "kernel": k, "stride": s,
                                                        "padding": p, "dilation": d, "bias": bias},
                               leaves, lambda T, K, s=s, p=p, d=d, bias=bias: f.conv1d(T["x"], T["w"], T["b"] if bias else None, s, p, d), functions=fns1))
    # requires_grad subsets on one geometry
    for fl in [fl for fl in itertools.product([True, False], repeat=3) if any(fl)]:
        cases.append(VCase("nn.functional.conv1d", {"op": "nn.functional.conv1d", "N": 2, "C_in": 1, "C_out": 2, "L": 4, "kernel": 2, "stride": 1, "padding": 1,
                                                    "dilation": 1, "bias": True, "requires_grad": list(fl)},
                           [Leaf("x", (2, 1, 4), "any", fl[0]), Leaf("w", (2, 1, 2), "any", fl[1]), Leaf("b", (2,), "any", fl[2])],
                           lambda T, K: f.conv1d(T["x"], T["w"], T["b"], 1, 1, 1), functions=fns1))
    fns2 = (NF_ + "conv2d", K_ + "conv2d_forward", K_ + "conv2d_backward", CT_ + "extract_windows", CT_ + "place_windows",
            CT_ + "get_conv2d_output_size")
    pairs = []
    R = REP_1D
    for i, a in enumerate(R):
        js = range(len(R)) if tier == "thorough" else sorted({i, (i + 1) % len(R), (i + 5) % len(R)})
        for j in js:
            pairs.append((a, R[j]))
    for pi, ((H, kh, sh, ph, dh), (W, kw, sw, pw, dw)) in enumerate(pairs):
        N, Ci, Co = (2, 2, 2) if pi % 11 == 0 else (1, 1, 1)
        bias = pi % 2 == 0
        leaves = [Leaf("x", (N, Ci, H, W)), Leaf("w", (Co, Ci, kh, kw))] + ([Leaf("b", (Co,))] if bias else [])
        cases.append(VCase("nn.functional.conv2d", {"op": "nn.functional.conv2d", "N": N, "C_in": Ci, "C_out": Co, "HW": (H, W), "kernel": (kh, kw),
                                                    "stride": (sh, sw), "padding": (ph, pw), "dilation": (dh, dw), "bias": bias},
                           leaves, lambda T, K, st=(sh, sw), pd=(ph, pw), dl=(dh, dw), bias=bias: f.conv2d(T["x"], T["w"], T["b"] if bias else None, st, pd, dl),
                           functions=fns2))
    # inputs / weights that are non-contiguous views (transposed tensors feed the window extractor)
    import synapgrad.functional as F_
    for (H, W, k, s_, p_, d_) in [(3, 4, (2, 2), (1, 1), (0, 0), (1, 1)), (4, 3, (2, 3), (2, 1), (1, 1), (1, 1)), (5, 3, (2, 2), (1, 2), (0, 1), (2, 1))]:
        cases.append(VCase("nn.functional.conv2d", {"op": "nn.functional.conv2d", "HW": (H, W), "kernel": k, "stride": s_, "padding": p_, "dilation": d_, "input_layout": "transposed view"},
                           [Leaf("xt", (2, 2, W, H)), Leaf("wt", (2, 2, k[1], k[0])), Leaf("b", (2,))],
                           lambda T, K, s_=s_, p_=p_, d_=d_: f.conv2d(F_.transpose(T["xt"], 2, 3), F_.transpose(T["wt"], 3, 2), T["b"], s_, p_, d_), functions=fns2))
    cases.append(VCase("nn.functional.conv1d", {"op": "nn.functional.conv1d", "L": 5, "kernel": 2, "stride": 2, "padding": 1, "dilation": 1, "input_layout": "transposed view"},
                       [Leaf("xt", (1, 5, 2)), Leaf("w", (2, 2, 2))], lambda T, K: f.conv1d(F_.transpose(T["xt"], 1, 2), T["w"], None, 2, 1, 1), functions=fns1))
    # int arguments
    cases.append(VCase("nn.functional.conv2d", {"op": "nn.functional.conv2d", "N": 1, "C_in": 2, "C_out": 1, "HW": (4, 4), "kernel": (2, 2), "stride": 2,
                                                "padding": 1, "dilation": 1, "bias": True, "int_args": True},
                       [Leaf("x", (1, 2, 4, 4)), Leaf("w", (1, 2, 2, 2)), Leaf("b", (1,))], lambda T, K: f.conv2d(T["x"], T["w"], T["b"], 2, 1, 1), functions=fns2))

    # layers
    def conv_layer(T, K, cls, args, kw):
        from synapgrad.nn.modules import Parameter
        L = cls(*args, **kw)
        L.weight = Parameter(T["w"])
        T["w"] = L.weight
        if kw.get("bias", True):
            L.bias = Parameter(T["b"])
            T["b"] = L.bias
        return L(T["x"])
    for kw in ({"stride": 1, "padding": 0, "dilation": 1, "bias": True}, {"stride": 2, "padding": 1, "bias": False}, {"padding": "same"}, {"padding": "valid", "dilation": 2}):
        bias = kw.get("bias", True)
        cases.append(VCase("nn.Conv1d", {"op": "nn.Conv1d", **{k: v for k, v in kw.items()}}, [Leaf("x", (1, 2, 5)), Leaf("w", (2, 2, 3))] + ([Leaf("b", (2,))] if bias else []),
                           lambda T, K, kw=kw: conv_layer(T, K, m.Conv1d, (2, 2, 3), kw), functions=("synapgrad.nn.layers.Conv1d.forward", "synapgrad.nn.layers.Conv1d.__init__")))
    for kw, ks in (({"stride": 1}, 2), ({"stride": (2, 1), "padding": (1, 0), "bias": False}, (2, 3)), ({"padding": "same"}, 3), ({"dilation": (1, 2), "padding": 1}, 2)):
        bias = kw.get("bias", True)
        kk = (ks, ks) if isinstance(ks, int) else ks
        cases.append(VCase("nn.Conv2d", {"op": "nn.Conv2d", "kernel": ks, **kw}, [Leaf("x", (1, 1, 4, 5)), Leaf("w", (2, 1) + kk)] + ([Leaf("b", (2,))] if bias else []),
                           lambda T, K, kw=kw, ks=ks: conv_layer(T, K, m.Conv2d, (1, 2, ks), kw), functions=("synapgrad.nn.layers.Conv2d.forward", "synapgrad.nn.layers.Conv2d.__init__")))
    return cases


def pool_cases(tier):
    f = NF()
    m = nn()
    cases = []
    Ls = [3, 4, 5, 6] if tier == "quick" else [3, 4, 5, 6, 7]
    g1 = geoms_1d(Ls, [1, 2, 3], [1, 2, 3], [0, 1], [1, 2], pool=True)
    for kind in ("max", "avg"):
        name = kind + "_pool1d"
        fns = (NF_ + name, K_ + name + "_forward", K_ + name + "_backward", CT_ + "extract_windows", CT_ + "place_windows",
               K_ + ("max_backward" if kind == "max" else "mean_backward"))
        for gi, (L, k, s, p, d) in enumerate(g1):
            shapes = [(1, 1, L)] + ([(2, 1, L)] if gi % 7 == 0 and out_len(L, k, s, p, d) <= 2 else []) + ([(1, 2, L)] if gi % 7 == 3 and out_len(L, k, s, p, d) <= 2 else [])
            for sh in shapes:
                cases.append(VCase("nn.functional." + name, {"op": "nn.functional." + name, "shape": sh, "kernel": k, "stride": s, "padding": p, "dilation": d},
                                   [Leaf("x", sh)], lambda T, K, name=name, k=k, s=s, p=p, d=d: getattr(f, name)(T["x"], k, s, p, d), functions=fns, max_paths=2500))
        cases.append(VCase("nn.functional." + name, {"op": "nn.functional." + name, "shape": (1, 1, 5), "kernel": 2, "stride": None, "padding": 0, "dilation": 1},
                           [Leaf("x", (1, 1, 5))], lambda T, K, name=name: getattr(f, name)(T["x"], 2), functions=fns))
        name = kind + "_pool2d"
        fns = (NF_ + name, K_ + name + "_forward", K_ + name + "_backward", CT_ + "extract_windows", CT_ + "place_windows",
               K_ + ("max_backward" if kind == "max" else "mean_backward"))
        R = [g for g in REP_1D if g[3] <= g[1] // 2 and g[0] <= 5]
        pairs = []
        for i, a in enumerate(R):
            js = range(len(R)) if tier == "thorough" else sorted({i, (i + 1) % len(R), (i + 3) % len(R)})
            for j in js:
                pairs.append((a, R[j]))
        for (H, kh, sh_, ph, dh), (W, kw, sw, pw, dw) in pairs:
            nwin = out_len(H, kh, sh_, ph, dh) * out_len(W, kw, sw, pw, dw)
            if kind == "max" and (2 ** (kh * kw - 1)) ** nwin > 3000:
                continue
            cases.append(VCase("nn.functional." + name, {"op": "nn.functional." + name, "shape": (1, 1, H, W), "kernel": (kh, kw), "stride": (sh_, sw),
                                                         "padding": (ph, pw), "dilation": (dh, dw)},
                               [Leaf("x", (1, 1, H, W))], lambda T, K, name=name, k=(kh, kw), s=(sh_, sw), p=(ph, pw), d=(dh, dw): getattr(f, name)(T["x"], k, s, p, d),
                               functions=fns, max_paths=3500))
        cases.append(VCase("nn.functional." + name, {"op": "nn.functional." + name, "shape": (1, 2, 2, 2), "kernel": 2, "stride": None, "padding": 0, "dilation": 1, "int_args": True},
                           [Leaf("x", (1, 2, 2, 2))], lambda T, K, name=name: getattr(f, name)(T["x"], 2), functions=fns))
        cases.append(VCase("nn.functional." + name, {"op": "nn.functional." + name, "shape": (1, 1, 2, 2), "kernel": 2, "stride": 1, "padding": 1, "dilation": 1, "int_args": True},
                           [Leaf("x", (1, 1, 2, 2))], lambda T, K, name=name: getattr(f, name)(T["x"], 2, 1, 1, 1), functions=fns, max_paths=5000))
    # pooling ties: the input repeats its operand's elements, so windows hold equal maxima on every path; whichever valid subgradient the
    # kernel picks, the operand must receive exactly the window's upstream gradient once (mass g_w, not m * g_w for m tied maxima)
    for rep, k, s, p in [([0, 0, 1, 1], 2, 2, 0), ([0, 0, 0], 3, 1, 1), ([0, 1, 1, 0], 2, 1, 0), ([0, 0, 1, 1, 1], 3, 2, 1), ([1, 0, 0, 1], 4, 1, 0)]:
        nsrc = max(rep) + 1
        cases.append(VCase("nn.functional.max_pool1d", {"op": "nn.functional.max_pool1d", "ties": "input repeats operand elements %s" % rep, "kernel": k, "stride": s, "padding": p, "dilation": 1},
                           [Leaf("a", (1, 1, nsrc))], lambda T, K, rep=rep, k=k, s=s, p=p: f.max_pool1d(T["a"][:, :, rep], k, s, p, 1),
                           functions=(NF_ + "max_pool1d", K_ + "max_pool1d_backward", K_ + "max_backward"), max_paths=2500))
    for rows, cols, k, s in [([0, 0], [0, 0], (2, 2), (1, 1)), ([0, 0, 1], [0, 1, 1], (2, 2), (1, 1)), ([0, 1, 1, 0], [0, 0], (2, 2), (2, 2)), ([0, 0, 0], [0, 0, 0], (3, 3), (1, 1)),
                             ([0, 0, 0, 0, 0], [0, 0, 0, 0, 0], (5, 5), (5, 5))]:
        nr, nc = max(rows) + 1, max(cols) + 1
        cases.append(VCase("nn.functional.max_pool2d", {"op": "nn.functional.max_pool2d", "ties": "input repeats operand rows %s cols %s" % (rows, cols), "kernel": k, "stride": s},
                           [Leaf("a", (1, 1, nr, nc))], lambda T, K, rows=rows, cols=cols, k=k, s=s: f.max_pool2d(T["a"][:, :, rows][:, :, :, cols], k, s),
                           functions=(NF_ + "max_pool2d", K_ + "max_pool2d_backward", K_ + "max_backward"), max_paths=2500))
    for cls, sh, args in ((m.MaxPool1d, (1, 1, 5), (2,)), (m.AvgPool1d, (1, 2, 5), (3, 1, 1)), (m.MaxPool2d, (1, 1, 3, 4), (2,)), (m.AvgPool2d, (1, 1, 4, 3), ((2, 1), (1, 2), (1, 0)))):
        cases.append(VCase("nn." + cls.__name__, {"op": "nn." + cls.__name__, "shape": sh, "args": args}, [Leaf("x", sh)],
                           lambda T, K, cls=cls, args=args: cls(*args)(T["x"]), functions=("synapgrad.nn.layers.%s.forward" % cls.__name__,)))
    return cases


def fold_cases(tier):
    f = NF()
    m = nn()
    cases = []
    fnsu = (NF_ + "unfold", CT_ + "im2col_fast", CT_ + "col2im_fast", CT_ + "extract_windows", CT_ + "place_windows")
    R = REP_1D
    pairs = []
    for i, a in enumerate(R):
        js = range(len(R)) if tier == "thorough" else sorted({i, (i + 2) % len(R)})
        for j in js:
            pairs.append((a, R[j]))
    for pi, ((H, kh, sh_, ph, dh), (W, kw, sw, pw, dw)) in enumerate(pairs):
        N, C = (2, 2) if pi % 7 == 0 else (1, 1)
        lH, lW = out_len(H, kh, sh_, ph, dh), out_len(W, kw, sw, pw, dw)
        key = {"shape": (N, C, H, W), "kernel": (kh, kw), "stride": (sh_, sw), "padding": (ph, pw), "dilation": (dh, dw)}
        cases.append(VCase("nn.functional.unfold", {"op": "nn.functional.unfold", **key}, [Leaf("x", (N, C, H, W))],
                           lambda T, K, k=(kh, kw), d=(dh, dw), s=(sh_, sw), p=(ph, pw): f.unfold(T["x"], k, d, s, p), functions=fnsu))
        cases.append(VCase("nn.functional.fold", {"op": "nn.functional.fold", **key}, [Leaf("x", (N, C * kh * kw, lH * lW))],
                           lambda T, K, o=(H, W), k=(kh, kw), d=(dh, dw), s=(sh_, sw), p=(ph, pw): f.fold(T["x"], o, k, d, s, p),
                           functions=(NF_ + "fold", CT_ + "col2im_fast", CT_ + "im2col_fast")))
    import synapgrad.functional as F_
    cases.append(VCase("nn.functional.unfold", {"op": "nn.functional.unfold", "shape": (2, 2, 3, 4), "kernel": (2, 2), "input_layout": "transposed view"}, [Leaf("xt", (2, 2, 4, 3))],
                       lambda T, K: f.unfold(F_.transpose(T["xt"], 2, 3), (2, 2), 1, 1, (0, 1)), functions=fnsu))
    cases.append(VCase("nn.functional.avg_pool2d", {"op": "nn.functional.avg_pool2d", "shape": (1, 2, 4, 3), "kernel": (2, 2), "input_layout": "moved dims"}, [Leaf("xt", (4, 3, 1, 2))],
                       lambda T, K: f.avg_pool2d(F_.movedim(T["xt"], (0, 1), (2, 3)), (2, 2), (1, 1), (1, 0)), functions=fnsu))
    cases.append(VCase("nn.functional.unfold", {"op": "nn.functional.unfold", "shape": (1, 2, 3, 3), "kernel": 2, "int_args": True}, [Leaf("x", (1, 2, 3, 3))],
                       lambda T, K: f.unfold(T["x"], 2), functions=fnsu))
    cases.append(VCase("nn.functional.unfold", {"op": "nn.functional.unfold", "shape": (1, 1, 3, 3), "kernel": (2, 2), "pad_value": "symbolic", "padding": 1},
                       [Leaf("x", (1, 1, 3, 3))], lambda T, K: f.unfold(T["x"], (2, 2), 1, 1, 1, K["pv"]), scalars=[Scalar("pv")], functions=fnsu))
    cases.append(VCase("nn.Unfold", {"op": "nn.Unfold", "shape": (1, 1, 3, 4), "kernel": 2, "stride": 1, "padding": 1}, [Leaf("x", (1, 1, 3, 4))],
                       lambda T, K: m.Unfold(2, stride=1, padding=1)(T["x"]), functions=("synapgrad.nn.layers.Unfold.forward",)))
    cases.append(VCase("nn.Fold", {"op": "nn.Fold", "output": (3, 3), "kernel": 2}, [Leaf("x", (1, 4, 4))],
                       lambda T, K: m.Fold((3, 3), 2)(T["x"]), functions=("synapgrad.nn.layers.Fold.forward",)))
    return cases


# ------------------------------------------------------------------------------------------- batch norm
def batchnorm_cases(tier):
    f = NF()
    m = nn()
    cases = []
    fns = (NF_ + "batch_norm", K_ + "batch_norm_forward", K_ + "batch_norm_backward")
    shapes = [(3, 2), (2, 1), (2, 2, 2)] + ([(4, 2), (2, 1, 2, 2), (2, 2, 3)] if tier == "thorough" else [(2, 1, 1, 2)])
    for shape in shapes:
        C = shape[1]
        # affine: both / neither, and -- through the functional form only -- a scale without a shift and a shift without a scale
        for training, affine, running in itertools.product([True, False], [True, False, "scale_only", "shift_only"], [True, False]):
            if affine in ("scale_only", "shift_only") and shape != shapes[0] and tier != "thorough":
                continue
            leaves = [Leaf("x", shape)]
            if affine in (True, "scale_only"):
                leaves += [Leaf("gamma", (C,))]
            if affine in (True, "shift_only"):
                leaves += [Leaf("beta", (C,))]
            # running statistics are symbolic constants (not differentiable inputs): arbitrary mean, positive variance
            scal = [Scalar("eps", "pos", native=1e-5), Scalar("mom", "unit", native=0.1)]
            if running:
                scal += [Scalar("rm%d" % c, "any") for c in range(C)] + [Scalar("rv%d" % c, "pos") for c in range(C)]

            def build(T, K, C=C, training=training, affine=affine, running=running):
                from synapgrad.tensor import Tensor
                rm = rv = None
                if running:
                    rm = Tensor(_arr([K["rm%d" % c] for c in range(C)]))
                    rv = Tensor(_arr([K["rv%d" % c] for c in range(C)]))
                return f.batch_norm(T["x"], T["gamma"] if affine in (True, "scale_only") else None, T["beta"] if affine in (True, "shift_only") else None, rm, rv, training, K["mom"], K["eps"])
            cases.append(VCase("nn.functional.batch_norm", {"op": "nn.functional.batch_norm", "shape": shape, "training": training, "affine": affine,
                                                            "running_stats": running, "mode": "batch-statistics" if (training or not running) else "running-statistics"},
                               leaves, build, scalars=scal, functions=fns, timeout_ms=30000))
    # the layer, all four (training x track_running_stats) x affine
    for cls, shape in ((m.BatchNorm1d, (3, 2)), (m.BatchNorm2d, (2, 1, 1, 2))):
        C = shape[1]
        for training, affine, track in itertools.product([True, False], repeat=3):
            leaves = [Leaf("x", shape)] + ([Leaf("gamma", (C,)), Leaf("beta", (C,))] if affine else [])

            def build(T, K, cls=cls, C=C, training=training, affine=affine, track=track):
                from synapgrad.nn.modules import Parameter
                L = cls(C, affine=affine, track_running_stats=track)
                if affine:
                    L.weight = Parameter(T["gamma"])
                    T["gamma"] = L.weight
                    L.bias = Parameter(T["beta"])
                    T["beta"] = L.bias
                if not training:
                    L.eval()
                return L(T["x"])
            cases.append(VCase("nn." + cls.__name__, {"op": "nn." + cls.__name__, "shape": shape, "training": training, "affine": affine, "track_running_stats": track,
                                                      "mode": "batch-statistics" if (training or not track) else "running-statistics"},
                               leaves, build, functions=("synapgrad.nn.layers.BatchNorm.forward",), timeout_ms=30000))
    return cases


def batchnorm_reuse_cases(tier):
    """the same BatchNorm layer applied again in the OTHER mode between the forward and the backward of its first application: the first result is still differentiated
    as the function that was computed (statistics saved by value, not read again at backward time; buffers not overwritten in place)"""
    m = nn()
    cases = []
    for cls, shape in ((m.BatchNorm1d, (3, 2)), (m.BatchNorm2d, (2, 2, 1, 2))):
        for first_eval in (True, False):
            def build(T, K, cls=cls, first_eval=first_eval):
                from synapgrad.tensor import Tensor
                from synapgrad.nn.modules import Parameter
                L = cls(2, dtype=T["x"].data.dtype)
                L.weight, L.bias = Parameter(T["gamma"]), Parameter(T["beta"])
                T["gamma"], T["beta"] = L.weight, L.bias
                L.running_mean = Tensor(np.array(T["rm"].data))
                L.running_var = Tensor(np.array(T["rv"].data))
                (L.eval if first_eval else L.train)()
                y1 = L(T["x"])
                (L.train if first_eval else L.eval)()
                L(T["x2"])
                return y1
            cases.append(VCase("nn." + cls.__name__, {"op": "nn." + cls.__name__, "shape": shape, "layer_reused_before_backward": True, "first_use": "eval" if first_eval else "train"},
                               [Leaf("x", shape), Leaf("x2", shape, "any", False), Leaf("gamma", (2,)), Leaf("beta", (2,)), Leaf("rm", (2,), "any", False), Leaf("rv", (2,), "pos", False)],
                               build, functions=("synapgrad.nn.layers.BatchNorm.forward", NF_ + "batch_norm"), timeout_ms=30000))
    return cases


def _arr(vals):
    import sys
    tm = sys.modules["synapgrad.tensor"]
    if tm.default_type__ is object:
        a = np.empty(len(vals), dtype=object)
        for i, v in enumerate(vals):
            a[i] = v
        return a
    return np.array(vals, dtype=np.float64)


def dropout_cases(tier):
    m = nn()
    cases = []
    for p in (0, 0.3, 0.5, 1, 1.0):
        for training in (True, False):
            def build(T, K, p=p, training=training):
                np.random.seed(1234)
                L = m.Dropout(p)
                if not training:
                    L.eval()
                return L(T["x"])
            cases.append(VCase("nn.Dropout", {"op": "nn.Dropout", "p": p, "training": training, "shape": (2, 3)}, [Leaf("x", (2, 3))], build,
                               functions=("synapgrad.nn.layers.Dropout.forward",)))
    # the same layer object applied again (same shape, other operand) between the forward and the backward of the first application:
    # the first result is still differentiated as the function that was computed (its own mask)
    for p in (0.3, 0.5):
        def build2(T, K, p=p):
            np.random.seed(4321)
            L = m.Dropout(p)
            y1 = L(T["x"])
            L(T["x2"])
            L(T["x2"] * 2.0)
            return y1
        cases.append(VCase("nn.Dropout", {"op": "nn.Dropout", "p": p, "training": True, "shape": (2, 3), "layer_reused_before_backward": True},
                           [Leaf("x", (2, 3)), Leaf("x2", (2, 3), "any", False)], build2, functions=("synapgrad.nn.layers.Dropout.forward",)))
    return cases


def flag_variants(cases, tier):
    """every differentiable input *that requires grad* receives its VJP whatever the other inputs' flags are: the functional forms with
    each single input frozen, and with only the first input tracked (each-value coverage of the configuration fields in quick)"""
    import copy
    out, seen = [], {}
    for c in cases:
        if not c.name.startswith("nn.functional.") or "requires_grad" in c.key or c.expect != "vjp":
            continue
        k = len(c.leaves)
        if k < 2 or not all(l.requires_grad for l in c.leaves):
            continue
        if tier != "thorough":
            sn = seen.setdefault(c.name, set())
            new = {(kk, repr(v)) for kk, v in c.key.items()} - sn
            if not new:
                continue
            sn |= new
        sets = [tuple(j != i for j in range(k)) for i in range(k)] + ([tuple(j == 0 for j in range(k))] if k >= 3 else [])
        for fl in sets:
            v = copy.copy(c)
            v.leaves = [Leaf(l.name, l.shape, l.domain, r, l.layout) for l, r in zip(c.leaves, fl)]
            v.key = dict(c.key, requires_grad=list(fl))
            out.append(v)
    return out


def zero_extent_cases(tier):
    """an empty batch through the building blocks: backward completes, gradients have their operands' shapes, weights get zero"""
    f = NF()
    cs = []

    def add(name, key, leaves, build, **kw):
        cs.append(VCase(name, dict(key, op=name, zero_extent=True), leaves, build, **kw))
    for nm in ("relu", "tanh", "sigmoid", "selu"):
        add("nn.functional." + nm, {"shape": (0, 3)}, [Leaf("x", (0, 3))], lambda T, K, nm=nm: getattr(f, nm)(T["x"]))
    for dim in (0, 1, -1):
        add("nn.functional.softmax", {"shape": (0, 3), "dim": dim}, [Leaf("x", (0, 3))], lambda T, K, dim=dim: f.softmax(T["x"], dim))
        add("nn.functional.log_softmax", {"shape": (0, 3), "dim": dim}, [Leaf("x", (0, 3))], lambda T, K, dim=dim: f.log_softmax(T["x"], dim))
    add("nn.functional.linear", {"N": 0, "in": 3, "out": 2, "bias": True}, [Leaf("x", (0, 3)), Leaf("w", (2, 3)), Leaf("b", (2,))], lambda T, K: f.linear(T["x"], T["w"], T["b"]))
    add("nn.functional.linear", {"N": 0, "in": 3, "out": 2, "bias": False}, [Leaf("x", (0, 3)), Leaf("w", (2, 3))], lambda T, K: f.linear(T["x"], T["w"]))
    add("nn.functional.conv1d", {"shape": (0, 2, 5), "kernel": 2}, [Leaf("x", (0, 2, 5)), Leaf("w", (3, 2, 2)), Leaf("b", (3,))], lambda T, K: f.conv1d(T["x"], T["w"], T["b"]))
    add("nn.functional.conv2d", {"shape": (0, 1, 3, 3), "kernel": 2}, [Leaf("x", (0, 1, 3, 3)), Leaf("w", (2, 1, 2, 2)), Leaf("b", (2,))], lambda T, K: f.conv2d(T["x"], T["w"], T["b"]))
    for kind in ("max", "avg"):
        add("nn.functional.%s_pool1d" % kind, {"shape": (0, 2, 4), "kernel": 2}, [Leaf("x", (0, 2, 4))], lambda T, K, kind=kind: getattr(f, kind + "_pool1d")(T["x"], 2))
        add("nn.functional.%s_pool2d" % kind, {"shape": (0, 1, 4, 4), "kernel": 2}, [Leaf("x", (0, 1, 4, 4))], lambda T, K, kind=kind: getattr(f, kind + "_pool2d")(T["x"], 2))
    add("nn.functional.unfold", {"shape": (0, 1, 3, 3), "kernel": 2}, [Leaf("x", (0, 1, 3, 3))], lambda T, K: f.unfold(T["x"], 2))
    add("nn.functional.mse_loss", {"shape": (0, 3), "reduction": "sum"}, [Leaf("p", (0, 3)), Leaf("t", (0, 3))], lambda T, K: nn().MSELoss(reduction="sum")(T["p"], T["t"]))
    return cs


def same_operand_cases(tier):
    """ONE tensor in two operand slots of a building block (a Gram matrix linear(f, f), a signal correlated with itself, a loss of a tensor with itself, scale and shift
    tied): the tensor receives the SUM of the slots' vector-Jacobian products"""
    f = NF()
    cs = []

    def add(name, leaves, build, **key):
        cs.append(VCase(name, dict(key, op=name, same_tensor_in_two_slots=True), leaves, build))
    add("nn.functional.linear", [Leaf("a", (2, 3))], lambda T, K: f.linear(T["a"], T["a"]), slots="x, weight")
    add("nn.functional.linear", [Leaf("a", (2, 2)), Leaf("b", (2,))], lambda T, K: f.linear(T["a"], T["a"], T["b"]), slots="x, weight (with bias)")
    add("nn.functional.linear", [Leaf("a", (2, 2))], lambda T, K: f.linear(T["a"], T["a"], T["a"]), slots="x, weight, bias")
    add("nn.functional.linear", [Leaf("x", (3, 2)), Leaf("a", (2, 2))], lambda T, K: f.linear(T["x"], T["a"], T["a"]), slots="weight, bias")
    add("nn.functional.conv1d", [Leaf("a", (2, 2, 3))], lambda T, K: f.conv1d(T["a"], T["a"]), slots="x, weight")
    add("nn.functional.conv1d", [Leaf("a", (2, 2, 2))], lambda T, K: f.conv1d(T["a"], T["a"], None, 1, 1), slots="x, weight (padding 1)")
    add("nn.functional.conv2d", [Leaf("a", (2, 2, 2, 2))], lambda T, K: f.conv2d(T["a"], T["a"]), slots="x, weight")
    add("nn.functional.mse_loss", [Leaf("a", (2, 2))], lambda T, K: f.mse_loss(T["a"] * 2.0, T["a"]), slots="prediction derived from the target")
    add("nn.functional.batch_norm", [Leaf("x", (3, 2)), Leaf("g", (2,))], lambda T, K: f.batch_norm(T["x"], T["g"], T["g"]), slots="weight, bias")
    return cs


def all_cases(tier="quick"):
    from .tensor_ops import layout_variants
    cases = []
    for g in (activation_cases, loss_cases, linear_cases, conv_cases, pool_cases, fold_cases, batchnorm_cases, batchnorm_reuse_cases, dropout_cases, zero_extent_cases, same_operand_cases):
        cases.extend(g(tier))
    base = list(cases)
    cases.extend(flag_variants(base, tier))
    cases.extend(layout_variants(base, tier))
    return cases
