"""Canaries: operations with a deliberately WRONG backward. Every check run must refute (and replay) each of them;
a canary that verifies means the checker is vacuous or unsound -> exit 3."""
import numpy as np

from ..symreal.harness import VCase, Leaf


def _swap_grad_fn(out, wrong):
    from synapgrad.functional import BackwardFunction
    if out.requires_grad:
        out._grad_fn = BackwardFunction(wrong, "Canary")
    return out


def tensor_canaries():
    import synapgrad.functional as F
    cs = []

    def matmul_no_transpose(T, K):
        a, b = T["a"], T["b"]
        out = F.matmul(a, b)

        def wrong():
            g = out._grad
            a._grad += g @ b.data          # missing swapaxes
            b._grad += a.data @ g
        return _swap_grad_fn(out, wrong)
    cs.append(VCase("canary.matmul_without_transpose", {"canary": True}, [Leaf("a", (2, 2)), Leaf("b", (2, 2))], matmul_no_transpose, expect="refute"))

    def mean_no_div(T, K):
        a = T["a"]
        out = F.mean(a, 1)

        def wrong():
            a._grad += np.expand_dims(out._grad, 1) + np.zeros(a.shape, dtype=object if a.data.dtype == object else a.data.dtype)   # missing 1/n
        return _swap_grad_fn(out, wrong)
    cs.append(VCase("canary.mean_without_1_over_n", {"canary": True}, [Leaf("a", (2, 3))], mean_no_div, expect="refute"))

    def add_one_element(T, K):
        a, b = T["a"], T["b"]
        out = F.add(a, b)

        def wrong():
            g = out._grad
            a._grad += g
            gb = g.sum(axis=0)
            gb = gb.copy()
            gb[1] = gb[1] * 2          # a single wrong element of a single operand
            b._grad += gb
        return _swap_grad_fn(out, wrong)
    cs.append(VCase("canary.add_single_wrong_element", {"canary": True}, [Leaf("a", (2, 3)), Leaf("b", (3,))], add_one_element, expect="refute"))

    def relu_shifted(T, K):
        import synapgrad.nn.functional as NF
        a = T["a"]
        out = NF.relu(a)

        def wrong():
            a._grad += out._grad * (a.data > -1)      # wrong kink position: only inputs in (-1, 0) expose it
        return _swap_grad_fn(out, wrong)
    cs.append(VCase("canary.relu_kink_at_minus_one", {"canary": True}, [Leaf("a", (2,))], relu_shifted, expect="refute"))
    return cs
