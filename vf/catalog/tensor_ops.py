"""Configuration catalogue for the differentiable tensor operations (functional.py / Tensor operators).

Every entry is a VCase: leaves (symbolic operands), a build closure calling the REAL public API, and a key that
describes the configuration (known findings are matched on it).  Extents are chosen pairwise distinct where possible
so that transposed or mis-ordered axes cannot alias.
"""
import itertools
import random

import numpy as np

from ..symreal.harness import VCase, Leaf, Scalar

FN = "synapgrad.functional."
K_ = "synapgrad.cpu_ops."


def F():
    import synapgrad.functional as f
    return f


def bshape(a, b):
    return tuple(np.broadcast_shapes(a, b))


def operand_shapes(result):
    """all shapes that broadcast (one-sidedly) to `result`: drop leading dims x replace any subset of dims by 1"""
    out = []
    n = len(result)
    for drop in range(n + 1):
        tail = result[drop:]
        for mask in itertools.product([0, 1], repeat=len(tail)):
            s = tuple(1 if m else d for d, m in zip(tail, mask))
            if s not in out:
                out.append(s)
    return out


def flag_sets(n, all_subsets):
    if not all_subsets:
        return [tuple([True] * n)]
    return [fl for fl in itertools.product([True, False], repeat=n) if any(fl)]


def _binary(opname, fn, sa, sb, flags, domb="any", functions=()):
    leaves = [Leaf("a", sa, "any", flags[0]), Leaf("b", sb, domb, flags[1])]
    return VCase(opname, {"op": opname, "shapes": [sa, sb], "requires_grad": list(flags)}, leaves,
                 lambda T, K, fn=fn: fn(T["a"], T["b"]), functions=functions)


def binary_cases(tier):
    f = F()
    cases = []
    ops = [
        ("functional.add", lambda a, b: f.add(a, b), "any", (FN + "add", K_ + "add_forward", K_ + "add_backward", K_ + "unbroadcast")),
        ("functional.mul", lambda a, b: f.mul(a, b), "any", (FN + "mul", K_ + "mul_forward", K_ + "mul_backward", K_ + "unbroadcast")),
        ("Tensor.__add__", lambda a, b: a + b, "any", ("synapgrad.tensor.Tensor.__add__",)),
        ("Tensor.__sub__", lambda a, b: a - b, "any", ("synapgrad.tensor.Tensor.__sub__", "synapgrad.tensor.Tensor.__neg__")),
        ("Tensor.__mul__", lambda a, b: a * b, "any", ("synapgrad.tensor.Tensor.__mul__",)),
        ("Tensor.__truediv__", lambda a, b: a / b, "nonzero", ("synapgrad.tensor.Tensor.__truediv__", "synapgrad.tensor.Tensor.__pow__")),
    ]
    # every broadcasting pattern onto (3,) and (2,3); a covering subset onto (2,3,4)
    full = []
    for R in [(3,), (2, 3)]:
        sh = operand_shapes(R)
        for sa in sh:
            for sb in sh:
                if bshape(sa, sb) == R:
                    full.append((sa, sb))
    full += [((), ()), ((1,), ()), ((), (1, 1))]
    R3 = (2, 3, 4)
    sh3 = operand_shapes(R3)
    cover3 = [(R3, s) for s in sh3] + [(s, R3) for s in sh3 if s != R3] + [((2, 1, 4), (1, 3, 1)), ((2, 3, 1), (4,)), ((1, 1, 4), (2, 3, 1)),
                                                                         ((3, 1), (2, 1, 4)), ((2, 1, 1), (3, 4))]
    for name, fn, domb, fns in ops:
        main = name in ("functional.add", "functional.mul")
        for sa, sb in full:
            for fl in flag_sets(2, main and len(sa) + len(sb) <= 3):
                cases.append(_binary(name, fn, sa, sb, fl, domb, fns))
        pats = cover3 if (main or tier == "thorough") else cover3[::4]
        for sa, sb in pats:
            cases.append(_binary(name, fn, sa, sb, (True, True), domb, fns))
    if tier == "thorough":
        R4 = (2, 1, 3, 2)
        for s in operand_shapes((2, 2, 3, 2))[::3]:
            cases.append(_binary("functional.mul", ops[1][1], R4, s, (True, True)))
            cases.append(_binary("functional.add", ops[0][1], s, R4, (True, True)))
    # python-scalar and reflected forms
    scal = [
        ("Tensor.__add__(scalar)", lambda a, c: a + c, "any"), ("Tensor.__radd__(scalar)", lambda a, c: c + a, "any"),
        ("Tensor.__sub__(scalar)", lambda a, c: a - c, "any"), ("Tensor.__rsub__(scalar)", lambda a, c: c - a, "any"),
        ("Tensor.__mul__(scalar)", lambda a, c: a * c, "any"), ("Tensor.__rmul__(scalar)", lambda a, c: c * a, "any"),
        ("Tensor.__truediv__(scalar)", lambda a, c: a / c, "any"), ("Tensor.__rtruediv__(scalar)", lambda a, c: c / a, "nonzero"),
    ]
    for name, fn, dom in scal:
        for c in (3, -1.5):
            for sa in [(), (3,), (2, 3)]:
                cases.append(VCase(name, {"op": name, "shape": sa, "scalar": c}, [Leaf("a", sa, dom)],
                                   lambda T, K, fn=fn, c=c: fn(T["a"], c), functions=("synapgrad.tensor.Tensor." + name.split(".")[1].split("(")[0],)))
    # same tensor used twice by one op
    cases.append(VCase("functional.mul", {"op": "functional.mul", "same_operand_twice": True, "shape": (2, 3)}, [Leaf("a", (2, 3))],
                       lambda T, K: f.mul(T["a"], T["a"])))
    cases.append(VCase("functional.add", {"op": "functional.add", "same_operand_twice": True, "shape": (3,)}, [Leaf("a", (3,))],
                       lambda T, K: f.add(T["a"], T["a"])))
    return cases


def matmul_cases(tier):
    f = F()
    cases = []
    shapes = [((2, 3), (3, 4)), ((1, 3), (3, 1)), ((2, 2, 3), (3, 2)), ((2, 3), (2, 3, 1)), ((2, 1, 2, 3), (3, 3, 2)),
              ((1, 2, 3), (2, 3, 2)), ((3, 1, 2), (1, 2, 2))]
    if tier == "thorough":
        shapes += [((2, 2, 1, 3), (1, 2, 3, 2)), ((4, 2), (2, 3)), ((2, 3, 2, 2), (2, 1))]
    fns = (FN + "matmul", K_ + "matmul_forward", K_ + "matmul_backward", K_ + "unbroadcast")
    for sa, sb in shapes:
        for fl in flag_sets(2, len(sa) == 2 and len(sb) == 2):
            cases.append(VCase("functional.matmul", {"op": "functional.matmul", "shapes": [sa, sb], "requires_grad": list(fl)},
                               [Leaf("a", sa, "any", fl[0]), Leaf("b", sb, "any", fl[1])], lambda T, K: f.matmul(T["a"], T["b"]), functions=fns))
    # 1-d operands: the wrapper may refuse them at forward (then nothing is demanded), but whatever it accepts must have the exact VJP
    for sa, sb in [((2, 3, 4), (4,)), ((3, 4), (4,)), ((4,), (4, 3)), ((4,), (4,)), ((2, 1, 3, 4), (4,)), ((4,), (2, 4, 3))]:
        cases.append(VCase("functional.matmul", {"op": "functional.matmul", "shapes": [sa, sb], "requires_grad": [True, True], "one_dimensional_operand": True},
                           [Leaf("a", sa), Leaf("b", sb)], lambda T, K: f.matmul(T["a"], T["b"]), functions=fns))
    cases.append(VCase("Tensor.__matmul__", {"op": "Tensor.__matmul__", "shapes": [(2, 3), (3, 2)]}, [Leaf("a", (2, 3)), Leaf("b", (3, 2))],
                       lambda T, K: T["a"] @ T["b"], functions=("synapgrad.tensor.Tensor.__matmul__",)))
    cases.append(VCase("Tensor.__rmatmul__", {"op": "Tensor.__rmatmul__", "shapes": [(2, 3), (3, 2)]}, [Leaf("b", (3, 2))],
                       lambda T, K: np.arange(6.0).reshape(2, 3).tolist() @ T["b"], functions=("synapgrad.tensor.Tensor.__rmatmul__",)))
    fns = (FN + "addmm", K_ + "addmm_forward", K_ + "addmm_backward", K_ + "add_backward", K_ + "matmul_backward")
    for sa in [(2, 2), (2,), (1, 2), (2, 1), (), (1,), (1, 1)]:
        for fl in flag_sets(3, sa in [(2, 2), (2,)]):
            cases.append(VCase("functional.addmm", {"op": "functional.addmm", "shapes": [sa, (2, 3), (3, 2)], "requires_grad": list(fl)},
                               [Leaf("a", sa, "any", fl[0]), Leaf("b", (2, 3), "any", fl[1]), Leaf("c", (3, 2), "any", fl[2])],
                               lambda T, K: f.addmm(T["a"], T["b"], T["c"]), functions=fns))
    # matrix operands with batch dimensions (the product broadcasts like matmul), the additive operand broadcast against the product in either direction
    for sa, sb, sc in [((2,), (2, 2, 3), (3, 2)), ((2, 2, 2), (2, 2, 3), (3, 2)), ((2, 2), (1, 2, 3), (2, 3, 2)), ((2, 1, 2), (2, 3), (3, 2)), ((2, 2, 2), (2, 3), (2, 3, 2)),
                       ((), (2, 1, 3), (3, 2)), ((1, 2, 1), (2, 2, 3), (3, 1)), ((2,), (3,), (3, 2)), ((2,), (2, 3), (3,)), ((), (3,), (3,)), ((2, 2), (3,), (2, 3, 2))]:
        cases.append(VCase("functional.addmm", {"op": "functional.addmm", "shapes": [sa, sb, sc], "requires_grad": [True, True, True], "batched": True},
                           [Leaf("a", sa), Leaf("b", sb), Leaf("c", sc)], lambda T, K: f.addmm(T["a"], T["b"], T["c"]), functions=fns))
    return cases


def unary_cases(tier):
    f = F()
    cases = []
    shapes = [(), (1,), (3,), (2, 3)] + ([(2, 1, 3), (2, 3, 2, 1)] if tier == "thorough" else [(2, 1, 2)])
    un = [("functional.neg", f.neg, "any", "neg"), ("Tensor.__neg__", lambda x: -x, "any", None), ("functional.clone", f.clone, "any", "clone"),
          ("Tensor.clone", lambda x: x.clone(), "any", None),
          ("functional.exp", f.exp, "any", "exp"), ("functional.log", f.log, "pos", "log"), ("functional.sqrt", f.sqrt, "pos", "sqrt"),
          ("Tensor.exp", lambda x: x.exp(), "any", None), ("Tensor.log", lambda x: x.log(), "pos", None), ("Tensor.sqrt", lambda x: x.sqrt(), "pos", None)]
    for name, fn, dom, k in un:
        fns = (FN + k, K_ + k + "_forward", K_ + k + "_backward") if k else ()
        for s in (shapes if k else shapes[1:3]):
            cases.append(VCase(name, {"op": name, "shape": s}, [Leaf("a", s, dom)], lambda T, K, fn=fn: fn(T["a"]), functions=fns))
    # pow / rpow
    fns = (FN + "pow", K_ + "pow_forward", K_ + "pow_backward")
    for n in [-2, -1, 0, 1, 2, 3, 0.5, -0.5, 1.5, 2.5, 0.3, -1.7, 2.0]:
        frac = float(n) != int(n)
        dom = "pos" if frac else ("nonzero" if n <= 0 else "any")
        for s in [(), (3,), (2, 2)]:
            cases.append(VCase("functional.pow", {"op": "functional.pow", "shape": s, "n": n, "n_type": type(n).__name__},
                               [Leaf("a", s, dom)], lambda T, K, n=n: f.pow(T["a"], n), functions=fns))
        cases.append(VCase("Tensor.__pow__", {"op": "Tensor.__pow__", "shape": (2,), "n": n}, [Leaf("a", (2,), dom)],
                           lambda T, K, n=n: T["a"] ** n, functions=("synapgrad.tensor.Tensor.__pow__",)))
    fns = (FN + "rpow", K_ + "rpow_forward", K_ + "rpow_backward")
    for base in [0.5, 2, 2.718281828459045, 10, 1.0]:
        for s in [(), (3,), (2, 2)]:
            cases.append(VCase("functional.rpow", {"op": "functional.rpow", "shape": s, "base": base}, [Leaf("a", s)],
                               lambda T, K, base=base: f.rpow(T["a"], base), functions=fns))
        cases.append(VCase("Tensor.__rpow__", {"op": "Tensor.__rpow__", "shape": (2,), "base": base}, [Leaf("a", (2,))],
                           lambda T, K, base=base: base ** T["a"], functions=("synapgrad.tensor.Tensor.__rpow__",)))
    return cases


SL = slice
INDEX_CATALOGUE = [
    # (shape, index expression, tag)
    ((4,), 0, "int"), ((4,), -1, "negative int"), ((4,), SL(1, 3), "slice"), ((4,), SL(None, None, 2), "step"),
    ((4,), SL(None, None, -1), "negative step"), ((4,), SL(3, 0, -2), "negative step bounds"), ((4,), Ellipsis, "ellipsis"),
    ((4,), None, "newaxis"), ((4,), [0, 2], "int list"), ((4,), [0, 0, 1], "repeated int list"), ((4,), [3, 3, 3, 0], "repeated int list"),
    ((4,), np.array([1, 1]), "repeated int array"), ((4,), np.array([True, False, True, False]), "bool mask"),
    ((3, 4), 1, "int"), ((3, 4), (1, 2), "int tuple"), ((3, 4), (SL(None), 1), "slice,int"), ((3, 4), (SL(0, 2), SL(1, None, 2)), "slices"),
    ((3, 4), (Ellipsis, 0), "ellipsis,int"), ((3, 4), (None, SL(None), None), "newaxis mixed"), ((3, 4), ([0, 2], [1, 1]), "paired int lists"),
    ((3, 4), ([1, 1, 1], SL(None)), "repeated rows"), ((3, 4), (SL(None), [0, 0]), "repeated cols"), ((3, 4), ([0, 0], [1, 1]), "repeated pairs"),
    ((3, 4), (SL(None, None, -1), SL(None, None, -2)), "negative steps"), ((3, 4), (-1, SL(None, None, 3)), "neg int, step"),
    ((3, 4), np.array([[0, 1], [1, 0]]), "2-d int array"), ((3, 4), (np.array([0, 2, 2]),), "repeated int array"),
    ((2, 3, 4), (0, Ellipsis, 1), "int,ellipsis,int"), ((2, 3, 4), (SL(None), 1, SL(None, None, 2)), "mixed"),
    ((2, 3, 4), (Ellipsis, None), "ellipsis,newaxis"), ((2, 3, 4), (1, [0, 0, 2], SL(1, 3)), "int,repeated list,slice"),
    ((2, 3, 4), ([0, 1, 1], SL(None), [0, 3, 3]), "separated advanced indices"), ((2, 3, 4), (SL(None), [1, 1], [2, 2]), "repeated adjacent advanced"),
    ((2, 3, 4), (-1, -1, -1), "element"), ((2, 3, 4), (SL(1, None), SL(None, -1), SL(None, None, -1)), "slices"),
    ((), Ellipsis, "0-d ellipsis"), ((), (), "0-d empty tuple"), ((), None, "0-d newaxis"),
    ((1, 3), (0, SL(None)), "size-1 dim"), ((3, 1), (SL(None), 0), "size-1 dim"),
    # the same position selected once as k and once as k - n (repeats that differ as written)
    ((4,), [1, -3], "aliasing signs"), ((4,), np.array([0, -4, 2, -2]), "aliasing signs"), ((3, 4), [1, -2], "aliasing signs rows"),
    ((3, 4), (SL(None, None, 2), [0, 2, -4]), "step, aliasing signs"), ((3, 4), ([0, -3], [-1, 3]), "aliasing sign pairs"),
    ((2, 3, 4), (Ellipsis, None, [3, -1]), "ellipsis,newaxis,aliasing signs"), ((2, 3, 4), ([1, -1], SL(None), [0, -4]), "separated aliasing signs"),
    ((4,), [-1, -1], "repeated negative"), ((3, 4), (np.array([True, False, True]), [1, -3]), "mask with aliasing signs"),
    # sequences that are neither list nor ndarray are advanced indices too when nested in the subscript
    ((3, 4), ((0, 0, 2), SL(None)), "nested tuple with repeats"), ((3, 4), (SL(None), (1, 1)), "nested tuple with repeats"), ((2, 3, 4), (Ellipsis, (3, 0, 3, 3)), "nested tuple with repeats"),
    ((3, 4), ((2, 0), (1, 1)), "paired nested tuples"), ((4,), (range(0, 4, 2),), "range object"),
]


def index_repr(ix):
    def one(i):
        if isinstance(i, slice):
            return "%s:%s:%s" % ("" if i.start is None else i.start, "" if i.stop is None else i.stop, "" if i.step is None else i.step)
        if i is Ellipsis:
            return "..."
        if i is None:
            return "None"
        if isinstance(i, np.ndarray):
            return "array(%s)" % (i.tolist(),)
        return repr(i)
    if isinstance(ix, tuple):
        return "(" + ", ".join(one(i) for i in ix) + ")"
    return one(ix)


def has_repeats(ix, shape):
    """does the index expression select some element more than once (however the indices are written)?"""
    sel = np.arange(int(np.prod(shape)) if shape else 1).reshape(shape)[ix]
    flat = np.asarray(sel).ravel().tolist()
    return len(set(flat)) < len(flat)


def slice_cases(tier):
    cases = []
    fns = (FN + "slice", K_ + "slice_forward", K_ + "slice_backward", "synapgrad.tensor.Tensor.__getitem__")
    for shape, ix, tag in INDEX_CATALOGUE:
        cases.append(VCase("Tensor.__getitem__", {"op": "Tensor.__getitem__", "shape": shape, "index": index_repr(ix), "kind": tag,
                                                  "repeated_indices": has_repeats(ix, shape)},
                           [Leaf("a", shape)], lambda T, K, ix=ix: T["a"][ix], functions=fns))
    return cases


def norm_dim(d, n):
    return d + n if d < 0 else d


def join_cases(tier):
    f = F()
    cases = []
    # concat
    fns = (FN + "concat", K_ + "concat_forward", K_ + "concat_backward")
    groups = [([(2, 3), (1, 3)], 0), ([(2, 3), (1, 3)], -2), ([(2, 1), (2, 3)], 1), ([(2, 1), (2, 3)], -1), ([(2,), (3,), (1,)], 0),
              ([(2, 3, 1), (2, 3, 2), (2, 3, 1)], 2), ([(2, 3, 1), (2, 3, 2)], -1), ([(1, 3, 2), (2, 3, 2)], -3), ([(2, 1, 2), (2, 2, 2)], 1),
              ([(3,)], 0)]
    for shapes, dim in groups:
        names = ["t%d" % i for i in range(len(shapes))]
        for fl in flag_sets(len(shapes), len(shapes) == 2 and len(shapes[0]) == 2):
            cases.append(VCase("functional.concat", {"op": "functional.concat", "shapes": shapes, "dim": dim, "requires_grad": list(fl)},
                               [Leaf(n, s, "any", r) for n, s, r in zip(names, shapes, fl)],
                               lambda T, K, names=names, dim=dim: f.concat([T[n] for n in names], dim), functions=fns))
    # the operands are handed over in a Python LIST that the caller re-uses afterwards (reversed, cleared, extended): the recorded graph must not alias it
    for opname, call in (("concat", lambda lst: f.concat(lst, 0)), ("stack", lambda lst: f.stack(lst, 0))):
        for mutation in ("reverse", "clear", "append"):
            def build(T, K, call=call, mutation=mutation):
                lst = [T["t0"], T["t1"], T["t2"]]
                out = call(lst)
                if mutation == "reverse":
                    lst.reverse()
                elif mutation == "clear":
                    lst.clear()
                else:
                    lst.append(T["t0"] * 2.0)
                return out
            cases.append(VCase("functional." + opname, {"op": "functional." + opname, "shapes": [(2, 3)] * 3, "dim": 0, "operands_passed_as": "list", "caller_then": "list.%s()" % mutation},
                               [Leaf("t0", (2, 3)), Leaf("t1", (2, 3)), Leaf("t2", (2, 3), "any", False)], build, functions=(FN + opname,)))
    cases.append(VCase("functional.concat", {"op": "functional.concat", "same_tensor_twice": True, "dim": 0}, [Leaf("a", (2, 3))],
                       lambda T, K: f.concat((T["a"], T["a"]), 0), functions=fns))
    # stack
    fns = (FN + "stack", K_ + "stack_forward", K_ + "stack_backward", K_ + "unbind_forward")
    for shape, k in [((3,), 2), ((2, 3), 2), ((2, 3), 3), ((), 3), ((2, 1, 3), 2)]:
        for dim in range(-(len(shape) + 1), len(shape) + 1):
            names = ["t%d" % i for i in range(k)]
            for fl in flag_sets(k, k == 2 and shape == (3,)):
                cases.append(VCase("functional.stack", {"op": "functional.stack", "shape": shape, "count": k, "dim": dim, "requires_grad": list(fl)},
                                   [Leaf(n, shape, "any", r) for n, r in zip(names, fl)],
                                   lambda T, K, names=names, dim=dim: f.stack([T[n] for n in names], dim), functions=fns))
    # unbind: each output as root, and a weighted sum of all outputs as root
    fns = (FN + "unbind", K_ + "unbind_forward", K_ + "unbind_backward")
    for shape in [(3,), (2, 3), (2, 3, 2)]:
        for dim in range(-len(shape), len(shape)):
            n = shape[dim]
            for idx in range(n):
                cases.append(VCase("functional.unbind", {"op": "functional.unbind", "shape": shape, "dim": dim, "root": idx},
                                   [Leaf("a", shape)], lambda T, K, dim=dim, idx=idx: f.unbind(T["a"], dim)[idx], functions=fns))

            def allsum(T, K, dim=dim, n=n):
                outs = f.unbind(T["a"], dim)
                acc = outs[0] * 1.0
                for i in range(1, n):
                    acc = acc + outs[i] * float(i + 2)
                return acc
            cases.append(VCase("functional.unbind", {"op": "functional.unbind", "shape": shape, "dim": dim, "root": "weighted sum of all outputs"},
                               [Leaf("a", shape)], allsum, functions=fns))
    return cases


def dims_for(n, tier):
    """None, every int dim in [-n, n), tuples of <=2 distinct dims in mixed sign"""
    ds = [None] + list(range(-n, n))
    tups = []
    for k in (1, 2):
        for c in itertools.combinations(range(n), k):
            tups.append(tuple(c))
            tups.append(tuple(d - n for d in c))
            if k == 2:
                tups.append((c[0], c[1] - n))
                tups.append((c[1], c[0]))
    if n >= 3 and tier == "thorough":
        tups.append(tuple(range(n)))
    seen = []
    for t in tups:
        if t not in seen:
            seen.append(t)
    return ds + seen


def reduce_cases(tier):
    f = F()
    cases = []
    shapes = [(3,), (2, 3), (2, 3, 2)] + ([(2, 1, 3), (1,), (2, 2, 1, 2)] if tier == "thorough" else [(1, 3)])
    for op in ("sum", "mean"):
        fns = (FN + op, K_ + op + "_forward", K_ + op + "_backward", K_ + "unsqueeze_forward")
        fn = getattr(f, op)
        for shape in [()] + shapes:
            n = len(shape)
            # the empty tuple / list of dims: whichever reading the forward takes (reduce nothing, or everything), the backward must be the VJP of THAT forward
            for dim in dims_for(n, tier) + [(), []]:
                for keep in (False, True):
                    cases.append(VCase("functional." + op, {"op": "functional." + op, "shape": shape, "dim": dim, "keepdims": keep,
                                                            "dim_kind": "none" if dim is None else ("int" if isinstance(dim, int) else ("tuple" if dim else "empty")),
                                                            "has_negative": (dim is not None) and any(d < 0 for d in ((dim,) if isinstance(dim, int) else dim))},
                                       [Leaf("a", shape)], lambda T, K, fn=fn, dim=dim, keep=keep: fn(T["a"], dim, keep), functions=fns))
        cases.append(VCase("Tensor." + op, {"op": "Tensor." + op, "shape": (2, 3), "dim": 1}, [Leaf("a", (2, 3))],
                           lambda T, K, op=op: getattr(T["a"], op)(1), functions=("synapgrad.tensor.Tensor." + op,)))
        cases.append(VCase("Tensor." + op, {"op": "Tensor." + op, "shape": (2, 3), "dim": None}, [Leaf("a", (2, 3))],
                           lambda T, K, op=op: getattr(T["a"], op)(), functions=("synapgrad.tensor.Tensor." + op,)))
    for op in ("max", "min"):
        fns = (FN + op, K_ + op + "_forward", K_ + op + "_backward", K_ + "unsqueeze_forward")
        fn = getattr(f, op)
        mshapes = [(3,), (2, 3), (2, 2, 2)] + ([(1, 3), (2, 1, 3)] if tier == "thorough" else [(1, 2)])
        for shape in [()] + mshapes:
            n = len(shape)
            for dim in dims_for(n, tier):
                for keep in (False, True):
                    cases.append(VCase("functional." + op, {"op": "functional." + op, "shape": shape, "dim": dim, "keepdims": keep,
                                                            "dim_kind": "none" if dim is None else ("int" if isinstance(dim, int) else "tuple")},
                                       [Leaf("a", shape)], lambda T, K, fn=fn, dim=dim, keep=keep: fn(T["a"], dim, keep), functions=fns,
                                       max_paths=800))
        cases.append(VCase("Tensor." + op, {"op": "Tensor." + op, "shape": (2, 3), "dim": None}, [Leaf("a", (2, 3))],
                           lambda T, K, op=op: getattr(T["a"], op)(), functions=("synapgrad.tensor.Tensor." + op,)))
        # ties: the reduced tensor repeats its operand's elements, so equal extrema exist on every path; any valid subgradient gives the
        # operand the upstream gradient of each reduced position exactly once
        for rep, dim in [([0, 0, 1], None), ([0, 0, 1], 0), ([1, 0, 0, 1], -1), ([0, 0, 0], 0)]:
            nsrc = max(rep) + 1
            cases.append(VCase("functional." + op, {"op": "functional." + op, "ties": "operand repeated as %s" % rep, "dim": dim, "dim_kind": "none" if dim is None else "int"},
                               [Leaf("a", (nsrc,))], lambda T, K, fn=fn, rep=rep, dim=dim: fn(T["a"][rep], dim), functions=fns, max_paths=800))
        cases.append(VCase("functional." + op, {"op": "functional." + op, "ties": "rows repeated [0, 0, 1]", "dim": 0, "dim_kind": "int"},
                           [Leaf("a", (2, 2))], lambda T, K, fn=fn: fn(T["a"][[0, 0, 1]], 0), functions=fns, max_paths=800))
    return cases


def factorisations(size):
    out = set()

    def rec(rem, acc):
        if len(acc) > 3:
            return
        if rem == 1 and acc:
            out.add(tuple(acc))
        for d in range(1, rem + 1):
            if rem % d == 0 and not (d == 1 and len(acc) >= 2):
                if d == 1 and rem != 1 and 1 in acc:
                    continue
                rec(rem // d, acc + [d])
    rec(size, [])
    return sorted(out)


def view_cases(tier):
    f = F()
    cases = []
    # squeeze
    fns = (FN + "squeeze", K_ + "squeeze_forward", K_ + "squeeze_backward")
    for shape in [(1,), (1, 3), (2, 1), (1, 2, 1), (2, 3), (), (1, 1)]:
        n = len(shape)
        dims = [None] + list(range(-n, n)) + [(d,) for d in range(n) if shape[d] == 1] + [(d - n,) for d in range(n) if shape[d] == 1]
        if sum(1 for d in shape if d == 1) >= 2:
            ones = tuple(d for d in range(n) if shape[d] == 1)
            dims.append(ones)
        for dim in dims:
            cases.append(VCase("functional.squeeze", {"op": "functional.squeeze", "shape": shape, "dim": dim,
                                                      "dim_kind": "none" if dim is None else ("int" if isinstance(dim, int) else "tuple")},
                               [Leaf("a", shape)], lambda T, K, dim=dim: f.squeeze(T["a"], dim), functions=fns))
    # unsqueeze
    fns = (FN + "unsqueeze", K_ + "unsqueeze_forward", K_ + "unsqueeze_backward")
    for shape in [(), (3,), (2, 3)]:
        n = len(shape)
        dims = list(range(-(n + 1), n + 1)) + [(0, 1), (0, -1)] + ([(1, -2)] if n >= 1 else [])
        for dim in dims:
            cases.append(VCase("functional.unsqueeze", {"op": "functional.unsqueeze", "shape": shape, "dim": dim}, [Leaf("a", shape)],
                               lambda T, K, dim=dim: f.unsqueeze(T["a"], dim), functions=fns))
    # reshape
    fns = (FN + "reshape", K_ + "reshape_forward", K_ + "reshape_backward")
    for shape in [(6,), (2, 3), (2, 1, 3), ()]:
        size = int(np.prod(shape)) if shape else 1
        targets = [t for t in factorisations(size)] + [(-1,), (size, -1)] + ([(-1, 2), (3, -1)] if size == 6 else []) + ([()] if size == 1 else [])
        for t in targets:
            cases.append(VCase("functional.reshape", {"op": "functional.reshape", "shape": shape, "target": t}, [Leaf("a", shape)],
                               lambda T, K, t=t: f.reshape(T["a"], t), functions=fns))
    # movedim / transpose: all pairs, both signs; tuple forms
    fns = (FN + "movedim", K_ + "movedim_forward", K_ + "movedim_backward")
    for shape in [(2, 3), (2, 3, 4)] + ([(2, 3, 1, 2)] if tier == "thorough" else []):
        n = len(shape)
        for s in range(-n, n):
            for d in range(-n, n):
                cases.append(VCase("functional.movedim", {"op": "functional.movedim", "shape": shape, "source": s, "destination": d,
                                                          "self_inverse": _move_self_inverse(n, s, d)},
                                   [Leaf("a", shape)], lambda T, K, s=s, d=d: f.movedim(T["a"], s, d), functions=fns))
    for s, d in [((0, 1), (1, 2)), ((0, 2), (2, 0)), ((-1, 0), (0, 1)), ((0, 1, 2), (2, 0, 1))]:
        cases.append(VCase("functional.movedim", {"op": "functional.movedim", "shape": (2, 3, 4), "source": s, "destination": d,
                                                  "self_inverse": _move_self_inverse(3, s, d)},
                           [Leaf("a", (2, 3, 4))], lambda T, K, s=s, d=d: f.movedim(T["a"], s, d), functions=fns))
    # tuple forms exhaustively for rank 3: every ordered choice of 2 (and 3) distinct source dims x every ordered choice of destinations (the order in which the pairs are
    # spelled must not matter: only which source goes to which destination), plus negative spellings in thorough
    import itertools as _it
    done = {((0, 1), (1, 2)), ((0, 2), (2, 0)), ((0, 1, 2), (2, 0, 1))}
    for r in (2, 3):
        for s in _it.permutations(range(3), r):
            for d in _it.permutations(range(3), r):
                if (s, d) in done or (tier != "thorough" and r == 3 and (sum(s) * 7 + sum(x * y for x, y in zip(s, d))) % 3):
                    continue
                cases.append(VCase("functional.movedim", {"op": "functional.movedim", "shape": (2, 3, 4), "source": s, "destination": d, "self_inverse": _move_self_inverse(3, s, d)},
                                   [Leaf("a", (2, 3, 4))], lambda T, K, s=s, d=d: f.movedim(T["a"], s, d), functions=fns))
    for s, d in [((0, -1), (-1, 0)), ((-3, 1), (1, -3)), ((2, 0), (-2, -1))] + ([((0, 1), (3, 0)), ((3, 1), (0, 2))] if tier == "thorough" else []):
        shape = (2, 3, 4) if max(max(s), max(d)) < 3 else (2, 3, 1, 2)
        cases.append(VCase("functional.movedim", {"op": "functional.movedim", "shape": shape, "source": s, "destination": d, "self_inverse": _move_self_inverse(len(shape), s, d)},
                           [Leaf("a", shape)], lambda T, K, s=s, d=d: f.movedim(T["a"], s, d), functions=fns))
    cases.append(VCase("Tensor.moveaxis", {"op": "Tensor.moveaxis", "shape": (2, 3, 4), "source": 2, "destination": 0, "self_inverse": False},
                       [Leaf("a", (2, 3, 4))], lambda T, K: T["a"].moveaxis(2, 0)))
    fns = (FN + "transpose", K_ + "transpose_forward", K_ + "transpose_backward")
    for shape in [(2, 3), (2, 3, 4)]:
        n = len(shape)
        for s in range(-n, n):
            for d in range(-n, n):
                cases.append(VCase("functional.transpose", {"op": "functional.transpose", "shape": shape, "dim0": s, "dim1": d},
                                   [Leaf("a", shape)], lambda T, K, s=s, d=d: f.transpose(T["a"], s, d), functions=fns))
    # flatten: all (start, end) in [-n, n) -- illegal ones are rejected by forward and skipped here (C05 decides accept/reject)
    fns = (FN + "flatten", K_ + "reshape_forward", K_ + "reshape_backward")
    for shape in [(3,), (2, 3), (2, 3, 2), ()]:
        n = max(len(shape), 1)
        for s in range(-n, n):
            for e in range(-n, n):
                cases.append(VCase("functional.flatten", {"op": "functional.flatten", "shape": shape, "start": s, "end": e}, [Leaf("a", shape)],
                                   lambda T, K, s=s, e=e: f.flatten(T["a"], s, e), functions=fns))
    cases.append(VCase("Tensor.flatten", {"op": "Tensor.flatten", "shape": (2, 3, 2)}, [Leaf("a", (2, 3, 2))], lambda T, K: T["a"].flatten()))
    # unfold_dim
    fns = (FN + "unfold_dim", K_ + "unfold_dim_forward", K_ + "unfold_dim_backward")
    ushapes = [(5,), (2, 5), (4, 2), (2, 3, 4)] + ([(7,), (2, 2, 5)] if tier == "thorough" else [])
    for shape in ushapes:
        n = len(shape)
        for dim in range(-n, n):
            ext = shape[dim]
            for size in range(1, ext + 1):
                for step in range(1, 4):
                    if len(shape) == 3 and (size, step) not in [(1, 1), (2, 1), (2, 2), (3, 1), (2, 3), (ext, 1)]:
                        continue
                    cases.append(VCase("functional.unfold_dim", {"op": "functional.unfold_dim", "shape": shape, "dimension": dim, "size": size, "step": step},
                                       [Leaf("a", shape)], lambda T, K, dim=dim, size=size, step=step: f.unfold_dim(T["a"], dim, size, step),
                                       functions=fns))
    cases.append(VCase("Tensor.unfold", {"op": "Tensor.unfold", "shape": (2, 5), "dimension": 1, "size": 2, "step": 2}, [Leaf("a", (2, 5))],
                       lambda T, K: T["a"].unfold(1, 2, 2)))
    return cases


def _move_self_inverse(n, s, d):
    try:
        perm = np.moveaxis(np.arange(n).reshape([1] * 0 + [n]) if False else np.zeros([2] * n), s, d)
        a = np.arange(2 ** n).reshape([2] * n)
        return bool(np.array_equal(np.moveaxis(np.moveaxis(a, s, d), s, d), a))
    except Exception:
        return None


def layout_variants(cases, tier):
    """The same operations on operands whose arrays are not C-contiguous (Fortran order, or a strided view of a larger buffer): the
    forward value and every VJP must not depend on memory layout. thorough: every case with an operand of rank >= 2 in both layouts;
    quick: per op, a subset in which every value of every configuration field appears at least once (each-value coverage)."""
    import copy
    out = []
    seen = {}
    for i, c in enumerate(cases):
        if c.expect != "vjp" or not any(len(l.shape) >= 2 for l in c.leaves):
            continue
        if tier != "thorough":
            s = seen.setdefault(c.name, set())
            new = {(k, repr(v)) for k, v in c.key.items()} - s
            if not new:
                continue
            s |= new
        for lay in (("F", "strided") if tier == "thorough" else (("F",) if i % 3 else ("strided",))):
            v = copy.copy(c)
            v.leaves = [Leaf(l.name, l.shape, l.domain, l.requires_grad, lay) for l in c.leaves]
            v.key = dict(c.key, operand_layout={"F": "Fortran-ordered", "strided": "strided view of a larger buffer"}[lay])
            out.append(v)
    return out


def zero_extent_cases(tier):
    """empty operands (an empty batch): backward completes, every gradient has its operand's shape, and operands that are not empty get
    the (zero / neutral) VJP"""
    f = F()
    cs = []

    def add(name, key, leaves, build):
        cs.append(VCase(name, dict(key, op=name, zero_extent=True), leaves, build))
    for sh in [(0,), (0, 3), (2, 0), (2, 0, 3)]:
        n = len(sh)
        add("functional.add", {"shapes": [sh, sh[-1:]]}, [Leaf("a", sh), Leaf("b", sh[-1:])], lambda T, K: f.add(T["a"], T["b"]))
        # (a 0-d partner would need ndarray.sum of an empty object array to return a 0-d array; NumPy returns the int 0 there, a symbolic-run artefact)
        add("functional.mul", {"shapes": [sh, (1,)]}, [Leaf("a", sh), Leaf("b", (1,))], lambda T, K: f.mul(T["a"], T["b"]))
        add("functional.exp", {"shape": sh}, [Leaf("a", sh)], lambda T, K: f.exp(T["a"]))
        for dim in [None] + list(range(-n, n)):
            add("functional.sum", {"shape": sh, "dim": dim}, [Leaf("a", sh)], lambda T, K, dim=dim: f.sum(T["a"], dim))
        add("functional.flatten", {"shape": sh, "start": 0, "end": -1}, [Leaf("a", sh)], lambda T, K: f.flatten(T["a"]))
        if n >= 2:
            add("functional.flatten", {"shape": sh, "start": 1, "end": -1}, [Leaf("a", sh)], lambda T, K: f.flatten(T["a"], 1))
            add("functional.transpose", {"shape": sh, "dim0": 0, "dim1": -1}, [Leaf("a", sh)], lambda T, K: f.transpose(T["a"], 0, -1))
        add("functional.unsqueeze", {"shape": sh, "dim": 0}, [Leaf("a", sh)], lambda T, K: f.unsqueeze(T["a"], 0))
        add("functional.reshape", {"shape": sh, "target": sh[::-1]}, [Leaf("a", sh)], lambda T, K, sh=sh: f.reshape(T["a"], sh[::-1]))
        add("functional.stack", {"shape": sh, "count": 2, "dim": 0}, [Leaf("a", sh), Leaf("b", sh)], lambda T, K: f.stack([T["a"], T["b"]], 0))
    add("functional.concat", {"shapes": [(0, 3), (2, 3)], "dim": 0}, [Leaf("a", (0, 3)), Leaf("b", (2, 3))], lambda T, K: f.concat([T["a"], T["b"]], 0))
    for fl in [(True, True), (True, False), (False, True)]:
        add("functional.concat", {"shapes": [(0,), (3,)], "dim": 0, "requires_grad": list(fl)}, [Leaf("a", (0,), "any", fl[0]), Leaf("b", (3,), "any", fl[1])], lambda T, K: f.concat([T["a"], T["b"]], 0))
        add("functional.concat", {"shapes": [(2,), (0,), (1,)], "dim": 0, "requires_grad": [fl[1], fl[0], False]},
            [Leaf("a", (2,), "any", fl[1]), Leaf("e", (0,), "any", fl[0]), Leaf("c", (1,), "any", False)], lambda T, K: f.concat([T["a"], T["e"], T["c"]], 0))
    add("functional.matmul", {"shapes": [(0, 3), (3, 2)]}, [Leaf("a", (0, 3)), Leaf("b", (3, 2))], lambda T, K: f.matmul(T["a"], T["b"]))
    add("functional.matmul", {"shapes": [(2, 0), (0, 2)]}, [Leaf("a", (2, 0)), Leaf("b", (0, 2))], lambda T, K: f.matmul(T["a"], T["b"]))
    add("functional.addmm", {"shapes": [(2,), (0, 3), (3, 2)]}, [Leaf("a", (2,)), Leaf("b", (0, 3)), Leaf("c", (3, 2))], lambda T, K: f.addmm(T["a"], T["b"], T["c"]))
    for ix, tag in [(SL(0, 0), "empty slice"), ([], "empty list"), (SL(3, 1), "reversed bounds"), ((SL(None), SL(2, 2)), "empty column slice")]:
        add("Tensor.__getitem__", {"shape": (4, 3), "index": index_repr(ix), "kind": tag}, [Leaf("a", (4, 3))], lambda T, K, ix=ix: T["a"][ix])
    add("functional.unbind", {"shape": (0, 3), "dim": 1, "root": 0}, [Leaf("a", (0, 3))], lambda T, K: f.unbind(T["a"], 1)[0])
    return cs


def method_view_cases(tier):
    """the METHOD forms of the layout operations (x.squeeze(), x.reshape(...) ...): thin wrappers, but wrappers with arguments of their own -- also with arguments for which
    the operation is the identity (nothing to squeeze, reshape to the same shape, flatten of a vector)"""
    cases = []
    forms = [("squeeze", (2, 3), lambda a: a.squeeze(), "None"), ("squeeze", (2, 3), lambda a: a.squeeze(0), "0"), ("squeeze", (2, 3), lambda a: a.squeeze((0, 1)), "(0,1)"), ("squeeze", (2, 3), lambda a: a.squeeze(-1), "-1"),
             ("squeeze", (2, 1, 3), lambda a: a.squeeze(), "None"), ("squeeze", (2, 1, 3), lambda a: a.squeeze(1), "1"), ("squeeze", (2, 1, 3), lambda a: a.squeeze(0), "0"),
             ("unsqueeze", (2, 3), lambda a: a.unsqueeze(1), "1"), ("reshape", (2, 3), lambda a: a.reshape((2, 3)), "(2,3)"), ("reshape", (2, 3), lambda a: a.reshape((3, -1)), "(3,-1)"),
             ("flatten", (3,), lambda a: a.flatten(), "default"), ("flatten", (2, 3), lambda a: a.flatten(), "default"), ("flatten", (2, 3, 2), lambda a: a.flatten(1, 1), "(1,1)"),
             ("transpose", (2, 3), lambda a: a.transpose(0, 1), "(0,1)"), ("transpose", (2, 3), lambda a: a.transpose(1, 1), "(1,1)"), ("movedim", (2, 3), lambda a: a.movedim(0, 0), "(0,0)"),
             ("movedim", (2, 3), lambda a: a.movedim(0, 1), "(0,1)"), ("unfold", (4,), lambda a: a.unfold(0, 4, 1), "(0,4,1)"), ("unfold", (4,), lambda a: a.unfold(0, 2, 2), "(0,2,2)")]
    for name, shape, fn, arg in forms:
        cases.append(VCase("Tensor." + name, {"op": "Tensor." + name, "shape": shape, "args": arg}, [Leaf("a", shape)], lambda T, K, fn=fn: fn(T["a"]), functions=("synapgrad.tensor.Tensor." + name,)))
    return cases


def reuse_cases(tier):
    """an operation that takes the SAME interior (non-leaf) tensor as two of its operands while that tensor also feeds another operation, the two consumers combined in
    either order: the interior tensor's gradient is complete (both operand slots and the other consumer) before its own backward runs"""
    f = F()
    cases = []
    twice = {"mul": lambda m: m * m, "add": lambda m: m + m, "sub": lambda m: m - m * 0.5 - m, "matmul": lambda m: f.matmul(m, m),
             "concat": lambda m: f.sum(f.concat([m, m], 0), 0) if m.ndim == 1 else f.concat([m, m], 0)[:m.shape[0]] * f.concat([m, m], 0)[m.shape[0]:],
             "stack": lambda m: f.sum(f.stack([m, m], 0), 0)}
    other = {"exp": lambda m: f.exp(m * 0.5), "mul_const": lambda m: m * 3.0}
    for tname, t in twice.items():
        for oname, o in other.items():
            for first in ("twice", "other"):
                def build(T, K, t=t, o=o, first=first):
                    m = T["a"] * 2.0 + 1.0            # an interior tensor
                    u, v = (t(m), o(m)) if first == "twice" else (o(m), t(m))
                    return u + v if first == "twice" else u + v * 1.0
                cases.append(VCase("reuse." + tname, {"op": "reuse." + tname, "shape": (2, 2), "other_consumer": oname, "built_first": first}, [Leaf("a", (2, 2))], build,
                                   functions=("synapgrad.tensor.Tensor.backward",)))
    return cases


def numpy_integer_cases(tier):
    """dims, sizes and indices that are NumPy integers (what np.argmax, a shape arithmetic or a config loader hands over) instead of Python ints: a wrapper may refuse the type at
    forward, but whatever it accepts must have the exact VJP"""
    f = F()
    i = np.int64
    cases = []
    forms = [("functional.sum", lambda T: f.sum(T["a"], i(0))), ("functional.sum", lambda T: f.sum(T["a"], i(-1), True)), ("functional.sum", lambda T: f.sum(T["a"], (i(0), i(1)))),
             ("functional.mean", lambda T: f.mean(T["a"], i(0))), ("functional.mean", lambda T: f.mean(T["a"], i(-1), True)), ("functional.mean", lambda T: f.mean(T["a"], (i(0), i(-1)))),
             ("functional.mean", lambda T: f.mean(T["a"], np.int32(1))),
             ("functional.max", lambda T: f.max(T["a"], i(1))), ("functional.min", lambda T: f.min(T["a"], i(-2), True)),
             ("functional.squeeze", lambda T: f.squeeze(f.unsqueeze(T["a"], i(1)), i(1))), ("functional.transpose", lambda T: f.transpose(T["a"], i(0), i(-1))),
             ("functional.movedim", lambda T: f.movedim(T["a"], i(0), i(1))), ("functional.flatten", lambda T: f.flatten(T["a"], i(0), i(1))),
             ("functional.unbind", lambda T: f.unbind(T["a"], i(1))[1]), ("functional.concat", lambda T: f.concat([T["a"], T["a"]], i(1))), ("functional.stack", lambda T: f.stack([T["a"], T["a"]], i(0))),
             ("functional.unfold_dim", lambda T: f.unfold_dim(T["a"], i(1), i(2), i(1))), ("functional.reshape", lambda T: f.reshape(T["a"], (i(3), i(2)))),
             ("Tensor.__getitem__", lambda T: T["a"][i(1)]), ("Tensor.__getitem__", lambda T: T["a"][i(0), i(-1)]), ("Tensor.__getitem__", lambda T: T["a"][i(0):i(2), ::i(2)]),
             ("functional.pow", lambda T: f.pow(T["a"], i(2)) if hasattr(f, "pow") else T["a"] ** i(2)), ("Tensor.__pow__", lambda T: T["a"] ** np.float64(2.0)),
             ("Tensor.__mul__", lambda T: T["a"] * np.float32(1.5))]          # (a NumPy scalar on the LEFT of an operator is NumPy's dispatch, not the library's: the result is an ndarray of objects, no tensor op is involved)
    for k, (api, fn) in enumerate(forms):
        cases.append(VCase(api, {"op": api, "shape": (2, 3), "numpy_scalar_arguments": True, "form": k}, [Leaf("a", (2, 3))], lambda T, K, fn=fn: fn(T)))
    return cases


def mutated_argument_cases(tier):
    """the caller changes a MUTABLE argument (an index list / array, the list of operands of a join, a list of dims or of extents) after the forward call and before backward:
    the recorded operation is the one the forward computed, so the gradient must not follow the later content of the caller's object"""
    f = F()
    cases = []

    def idx_list(T, K):
        idx = [0, 1]
        y = T["a"][idx]
        idx[0] = 2
        return y

    def idx_array(T, K):
        idx = np.array([2, 0])
        y = T["a"][idx]
        idx[:] = 1
        return y

    def idx_pair(T, K):
        rows, cols = [0, 1], [2, 0]
        y = T["a"][rows, cols]
        rows.reverse()
        return y

    def join(fn, how):
        def build(T, K):
            parts = [T["a"], T["b"], T["c"]]
            y = fn(parts, 0)
            if how == "reversed":
                parts.reverse()
            elif how == "cleared":
                parts.clear()
            else:
                parts[0] = T["c"]
            return y
        return build

    def dims_list(T, K):
        dims = [0]
        y = f.sum(T["a"], dims) if True else None
        dims[0] = 1
        return y

    def shape_list(T, K):
        shp = [3, 3]
        y = f.reshape(T["a"], shp)
        shp[0], shp[1] = 9, 1
        return y
    A = lambda: Leaf("a", (3, 3))
    for name, api, build in (("index list changed after the forward", "Tensor.__getitem__", idx_list), ("index array overwritten after the forward", "Tensor.__getitem__", idx_array),
                             ("one of two index lists reversed after the forward", "Tensor.__getitem__", idx_pair), ("list of dims changed after the forward", "functional.sum", dims_list),
                             ("list of extents changed after the forward", "functional.reshape", shape_list)):
        cases.append(VCase(api, {"op": api, "argument_mutated_after_forward": name}, [A()], build))
    for api, fn in (("functional.concat", f.concat), ("functional.stack", f.stack)):
        for how in ("reversed", "cleared", "entry replaced"):
            cases.append(VCase(api, {"op": api, "argument_mutated_after_forward": "operand list " + how},
                               [Leaf("a", (2, 2)), Leaf("b", (2, 2)), Leaf("c", (2, 2))], join(fn, how)))
    return cases


def all_cases(tier="quick"):
    cases = []
    for g in (binary_cases, matmul_cases, unary_cases, slice_cases, join_cases, reduce_cases, view_cases, zero_extent_cases, reuse_cases, method_view_cases, numpy_integer_cases, mutated_argument_cases):
        cases.extend(g(tier))
    cases.extend(layout_variants(cases, tier))
    return cases
