"""Reference semantics (the specification side of C05 / C06).

Written from the NumPy / PyTorch definitions the library says it mirrors, NOT from the library's code:
 * arithmetic and reductions are spelled out in index notation (explicit loops over output indices);
 * pure data-movement operations (indexing, moves, reshapes, joins, windows) are defined by applying NumPy to an INTEGER
   index array (which element of the operand lands where) - NumPy itself is the trusted definition there;
 * legality follows PyTorch for the torch-named operations (flatten, unfold, squeeze, movedim, transpose, stack, unbind).
Each function returns an array (works on float arrays and on object arrays of symbolic reals) or raises Reject.
`selftest()` compares every function with NumPy and torch natively.
"""
import itertools

import numpy as np


class Reject(Exception):
    """the reference semantics say this argument combination is illegal"""


def _obj(shape):
    return np.empty(shape, dtype=object)


def _like(shape, *arrs):
    if any(isinstance(a, np.ndarray) and a.dtype == object for a in arrs):
        return np.empty(shape, dtype=object)
    return np.empty(shape, dtype=np.float64)


def _it(shape):
    return [()] if len(shape) == 0 else np.ndindex(*shape)


def norm_dim(d, n, what="dim"):
    if not isinstance(d, (int, np.integer)) or isinstance(d, bool):
        raise Reject("%s must be an int" % what)
    lo = -max(n, 1)
    hi = max(n, 1)
    if not (lo <= d < hi):
        raise Reject("%s %d out of range for rank %d" % (what, d, n))
    return d % hi if n > 0 else 0


def broadcast_shape(*shapes):
    n = max(len(s) for s in shapes)
    out = []
    for i in range(n):
        ext = 1
        for s in shapes:
            j = i - (n - len(s))
            if j >= 0:
                e = s[j]
                if e != 1:
                    if ext != 1 and ext != e:
                        raise Reject("shapes %s are not broadcastable" % (shapes,))
                    ext = e
        out.append(ext)
    return tuple(out)


def _bidx(idx, shape, n):
    """index into an operand of `shape` for output index idx of rank n"""
    off = n - len(shape)
    return tuple(0 if shape[j] == 1 else idx[j + off] for j in range(len(shape)))


def binary(a, b, fn):
    a, b = np.asarray(a), np.asarray(b)
    shape = broadcast_shape(a.shape, b.shape)
    out = _like(shape, a, b)
    n = len(shape)
    for idx in _it(shape):
        out[idx] = fn(a[_bidx(idx, a.shape, n)], b[_bidx(idx, b.shape, n)])
    return out


def unary(a, fn):
    a = np.asarray(a)
    out = _like(a.shape, a)
    for idx in _it(a.shape):
        out[idx] = fn(a[idx])
    return out


def matmul(a, b, min_rank=2):
    a, b = np.asarray(a), np.asarray(b)
    if a.ndim < min_rank or b.ndim < min_rank:
        raise Reject("matmul needs operands of rank >= %d" % min_rank)
    if a.shape[-1] != b.shape[-2]:
        raise Reject("inner dimensions differ")
    batch = broadcast_shape(a.shape[:-2], b.shape[:-2])
    shape = batch + (a.shape[-2], b.shape[-1])
    out = _like(shape, a, b)
    nb = len(batch)
    for idx in _it(shape):
        bi = idx[:nb]
        i, j = idx[nb], idx[nb + 1]
        ai = _bidx(bi, a.shape[:-2], nb)
        bj = _bidx(bi, b.shape[:-2], nb)
        acc = 0
        for k in range(a.shape[-1]):
            acc = acc + a[ai + (i, k)] * b[bj + (k, j)]
        out[idx] = acc
    return out


def reduce_dims(dim, n):
    if dim is None:
        return tuple(range(n))
    if isinstance(dim, (int, np.integer)) and not isinstance(dim, bool):
        if n == 0:
            if dim in (0, -1):
                return ()
            raise Reject("dim out of range for a 0-d tensor")
        return (norm_dim(dim, n),)
    if isinstance(dim, (tuple, list)):
        ds = tuple(norm_dim(d, n) if n > 0 else (_ for _ in ()).throw(Reject("dim on 0-d")) for d in dim)
        if len(set(ds)) != len(ds):
            raise Reject("duplicate dims")
        return ds
    raise Reject("dim must be None, int or tuple")


def reduce(a, dim, keepdims, kind):
    a = np.asarray(a)
    n = a.ndim
    ds = reduce_dims(dim, n)
    keep = [i for i in range(n) if i not in ds]
    shape = tuple(1 if i in ds else a.shape[i] for i in range(n)) if keepdims else tuple(a.shape[i] for i in keep)
    out = _like(shape, a)
    red_ext = [a.shape[i] for i in ds]
    count = int(np.prod(red_ext)) if ds else 1
    if count == 0 and kind != "sum":
        raise Reject("mean / max / min over an empty extent (no defined value)")       # the empty sum is 0
    for idx in _it(shape):
        if keepdims:
            fixed = {i: idx[i] for i in keep}
        else:
            fixed = {i: idx[k] for k, i in enumerate(keep)}
        vals = []
        for r in _it(tuple(red_ext)):
            full = [0] * n
            for i, v in fixed.items():
                full[i] = v
            for i, v in zip(ds, r):
                full[i] = v
            vals.append(a[tuple(full)])
        if kind == "sum":
            acc = 0
            for v in vals:
                acc = acc + v
        elif kind == "mean":
            acc = 0
            for v in vals:
                acc = acc + v
            acc = acc / count
        elif kind == "max":
            acc = vals[0]
            for v in vals[1:]:
                acc = v if bool(v > acc) else acc
        elif kind == "min":
            acc = vals[0]
            for v in vals[1:]:
                acc = v if bool(v < acc) else acc
        out[idx] = acc
    return out


# ------------------------------------------------------------------------------------------- data movement via index arrays
def _move(a, f):
    """apply the NumPy function f to an integer index array of a's shape and gather"""
    a = np.asarray(a)
    ix = np.arange(a.size).reshape(a.shape)
    try:
        r = f(ix)
    except (ValueError, IndexError, TypeError, np.exceptions.AxisError) as e:
        raise Reject("%s: %s" % (type(e).__name__, e))
    r = np.asarray(r)
    flat = a.reshape(-1)
    out = np.empty(r.shape, dtype=a.dtype)
    for idx in _it(r.shape):
        out[idx] = flat[r[idx]]
    return out


def index(a, key):
    return _move(a, lambda ix: ix[key])


def movedim(a, source, destination):
    a = np.asarray(a)
    n = a.ndim
    src = (source,) if isinstance(source, (int, np.integer)) else tuple(source)
    dst = (destination,) if isinstance(destination, (int, np.integer)) else tuple(destination)
    if len(src) != len(dst):
        raise Reject("source and destination differ in length")
    s = [norm_dim(d, n) for d in src]
    t = [norm_dim(d, n) for d in dst]
    if n == 0:
        raise Reject("movedim on 0-d")
    if len(set(s)) != len(s) or len(set(t)) != len(t):
        raise Reject("repeated dim")
    order = [None] * n
    for si, ti in zip(s, t):
        order[ti] = si
    rest = [i for i in range(n) if i not in s]
    for k in range(n):
        if order[k] is None:
            order[k] = rest.pop(0)
    # out[idx] = a[perm(idx)]
    shape = tuple(a.shape[o] for o in order)
    out = np.empty(shape, dtype=a.dtype)
    for idx in _it(shape):
        full = [0] * n
        for k, o in enumerate(order):
            full[o] = idx[k]
        out[idx] = a[tuple(full)]
    return out


def transpose(a, d0, d1):
    a = np.asarray(a)
    n = a.ndim
    if n == 0:
        raise Reject("transpose on 0-d")
    i, j = norm_dim(d0, n), norm_dim(d1, n)
    order = list(range(n))
    order[i], order[j] = order[j], order[i]
    shape = tuple(a.shape[o] for o in order)
    out = np.empty(shape, dtype=a.dtype)
    for idx in _it(shape):
        full = [0] * n
        for k, o in enumerate(order):
            full[o] = idx[k]
        out[idx] = a[tuple(full)]
    return out


def reshape(a, shape):
    a = np.asarray(a)
    shape = (shape,) if isinstance(shape, (int, np.integer)) else tuple(shape)
    if sum(1 for s in shape if s == -1) > 1 or any(s < -1 for s in shape):
        raise Reject("bad target shape")
    known = int(np.prod([s for s in shape if s != -1])) if shape else 1
    if -1 in shape:
        if known == 0 or a.size % known != 0:
            raise Reject("cannot infer -1")
        shape = tuple(a.size // known if s == -1 else s for s in shape)
    if int(np.prod(shape)) if shape else 1 != a.size:
        pass
    total = 1
    for s in shape:
        total *= s
    if total != a.size:
        raise Reject("size mismatch")
    flat = [a[idx] for idx in _it(a.shape)]          # row-major order
    out = np.empty(shape, dtype=a.dtype)
    for k, idx in enumerate(_it(shape)):
        out[idx] = flat[k]
    return out


def flatten(a, start=0, end=-1):
    """torch.flatten: dims in [-max(n,1), max(n,1)), start <= end after normalisation; a 0-d tensor becomes shape (1,)"""
    a = np.asarray(a)
    n = a.ndim
    s = norm_dim(start, n, "start_dim")
    e = norm_dim(end, n, "end_dim")
    if s > e:
        raise Reject("start_dim after end_dim")
    if n == 0:
        return reshape(a, (1,))
    mid = 1
    for d in a.shape[s:e + 1]:
        mid *= d
    return reshape(a, a.shape[:s] + (mid,) + a.shape[e + 1:])


def squeeze(a, dim=None):
    """torch.squeeze: dim None / int / tuple; dims that are not of size 1 are left alone"""
    a = np.asarray(a)
    n = a.ndim
    if dim is None:
        ds = [i for i in range(n) if a.shape[i] == 1]
    else:
        dims = (dim,) if isinstance(dim, (int, np.integer)) else tuple(dim)
        ds = [norm_dim(d, n) for d in dims]
        if len(set(ds)) != len(ds):
            raise Reject("repeated dim")
        ds = [d for d in ds if n > 0 and a.shape[d] == 1]
    shape = tuple(a.shape[i] for i in range(n) if i not in ds)
    return reshape(a, shape)


def unsqueeze(a, dim):
    """np.expand_dims semantics (torch.unsqueeze for an int)"""
    a = np.asarray(a)
    dims = (dim,) if isinstance(dim, (int, np.integer)) else tuple(dim)
    n_out = a.ndim + len(dims)
    ds = []
    for d in dims:
        if not isinstance(d, (int, np.integer)) or not (-n_out <= d < n_out):
            raise Reject("dim out of range")
        ds.append(d % n_out)
    if len(set(ds)) != len(ds):
        raise Reject("repeated dim")
    it = iter(a.shape)
    shape = tuple(1 if i in ds else next(it) for i in range(n_out))
    return reshape(a, shape)


def concat(arrs, dim):
    arrs = [np.asarray(a) for a in arrs]
    if not arrs:
        raise Reject("empty list")
    if not isinstance(dim, (int, np.integer)):
        raise Reject("dim must be int")
    n = arrs[0].ndim
    if n == 0 or any(a.ndim != n for a in arrs):
        raise Reject("rank mismatch / 0-d")
    d = norm_dim(dim, n)
    for a in arrs[1:]:
        if any(a.shape[i] != arrs[0].shape[i] for i in range(n) if i != d):
            raise Reject("shape mismatch")
    shape = tuple(sum(a.shape[d] for a in arrs) if i == d else arrs[0].shape[i] for i in range(n))
    out = np.empty(shape, dtype=arrs[0].dtype if all(a.dtype == arrs[0].dtype for a in arrs) else object)
    off = 0
    for a in arrs:
        for idx in _it(a.shape):
            o = list(idx)
            o[d] += off
            out[tuple(o)] = a[idx]
        off += a.shape[d]
    return out


def stack(arrs, dim=0):
    arrs = [np.asarray(a) for a in arrs]
    if not arrs:
        raise Reject("empty list")
    if not isinstance(dim, (int, np.integer)):
        raise Reject("dim must be int")
    if any(a.shape != arrs[0].shape for a in arrs):
        raise Reject("shape mismatch")
    n = arrs[0].ndim + 1
    if not (-n <= dim < n):
        raise Reject("dim out of range")
    d = dim % n
    return concat([unsqueeze(a, d) for a in arrs], d)


def unbind(a, dim=0):
    a = np.asarray(a)
    if a.ndim == 0:
        raise Reject("unbind on 0-d")
    d = norm_dim(dim, a.ndim)
    outs = []
    for k in range(a.shape[d]):
        key = tuple(k if i == d else slice(None) for i in range(a.ndim))
        outs.append(index(a, key))
    return outs


def unfold_dim(a, dimension, size, step):
    """torch.Tensor.unfold: windows of `size` every `step` along `dimension`, window contents in a new last dim"""
    a = np.asarray(a)
    n = a.ndim
    if n == 0:
        raise Reject("0-d")
    d = norm_dim(dimension, n, "dimension")
    if not isinstance(size, (int, np.integer)) or isinstance(size, bool) or not isinstance(step, (int, np.integer)) or isinstance(step, bool):
        raise Reject("size/step must be ints")
    if step <= 0 or size <= 0 or size > a.shape[d]:
        raise Reject("bad size/step")
    cnt = (a.shape[d] - size) // step + 1
    shape = tuple(cnt if i == d else a.shape[i] for i in range(n)) + (size,)
    out = np.empty(shape, dtype=a.dtype)
    for idx in _it(shape):
        src = list(idx[:-1])
        src[d] = idx[d] * step + idx[-1]
        out[idx] = a[tuple(src)]
    return out


# ------------------------------------------------------------------------------------------------------ nn forward specs
def conv_out(L, k, s, p, d):
    return (L + 2 * p - d * (k - 1) - 1) // s + 1


def _pair(v, n=2):
    if isinstance(v, (int, np.integer)):
        return (int(v),) * n
    v = tuple(int(x) for x in v)
    if len(v) != n:
        raise Reject("geometry argument of wrong length")
    return v


def conv(x, w, b, stride, padding, dilation, nd):
    x, w = np.asarray(x), np.asarray(w)
    if x.ndim != nd + 2 or w.ndim != nd + 2:
        raise Reject("wrong rank")
    if x.shape[1] != w.shape[1]:
        raise Reject("channel mismatch")
    s, p, d = _pair(stride, nd), _pair(padding, nd), _pair(dilation, nd)
    ks = w.shape[2:]
    outs = tuple(conv_out(x.shape[2 + i], ks[i], s[i], p[i], d[i]) for i in range(nd))
    if any(o <= 0 for o in outs):
        raise Reject("no window")
    N, Co, Ci = x.shape[0], w.shape[0], w.shape[1]
    out = _like((N, Co) + outs, x, w)
    for n, o in itertools.product(range(N), range(Co)):
        for pos in _it(outs):
            acc = b[o] if b is not None else 0
            for c in range(Ci):
                for kk in _it(ks):
                    src = tuple(pos[i] * s[i] + kk[i] * d[i] - p[i] for i in range(nd))
                    if all(0 <= src[i] < x.shape[2 + i] for i in range(nd)):
                        acc = acc + w[(o, c) + tuple(kk)] * x[(n, c) + src]
            out[(n, o) + tuple(pos)] = acc
    return out


def pool(x, kernel, stride, padding, dilation, nd, kind):
    x = np.asarray(x)
    if x.ndim != nd + 2:
        raise Reject("wrong rank")
    k = _pair(kernel, nd)
    s = _pair(stride if stride is not None else kernel, nd)
    p, d = _pair(padding, nd), _pair(dilation, nd)
    outs = tuple(conv_out(x.shape[2 + i], k[i], s[i], p[i], d[i]) for i in range(nd))
    if any(o <= 0 for o in outs):
        raise Reject("no window")
    out = _like(x.shape[:2] + outs, x)
    size = int(np.prod(k))
    for n, c in itertools.product(range(x.shape[0]), range(x.shape[1])):
        for pos in _it(outs):
            vals = []
            for kk in _it(k):
                src = tuple(pos[i] * s[i] + kk[i] * d[i] - p[i] for i in range(nd))
                if all(0 <= src[i] < x.shape[2 + i] for i in range(nd)):
                    vals.append(x[(n, c) + src])
            if kind == "max":
                if not vals:
                    raise Reject("window entirely in the padding")
                acc = vals[0]
                for v in vals[1:]:
                    acc = v if bool(v > acc) else acc        # padding never wins
            else:
                acc = 0
                for v in vals:
                    acc = acc + v
                acc = acc / size                               # padded zeros are counted
            out[(n, c) + tuple(pos)] = acc
    return out


def unfold(x, kernel, dilation=1, stride=1, padding=0, pad_value=0):
    """torch.nn.Unfold: (N, C*kH*kW, L), channel-major kernel layout, row-major block order"""
    x = np.asarray(x)
    if x.ndim != 4:
        raise Reject("wrong rank")
    k, d, s, p = _pair(kernel), _pair(dilation), _pair(stride), _pair(padding)
    N, C, H, W = x.shape
    lH, lW = conv_out(H, k[0], s[0], p[0], d[0]), conv_out(W, k[1], s[1], p[1], d[1])
    if lH <= 0 or lW <= 0:
        raise Reject("no window")
    out = _like((N, C * k[0] * k[1], lH * lW), x, np.asarray(pad_value) if not isinstance(pad_value, (int, float)) else x)
    for n, c, u, v, i, j in itertools.product(range(N), range(C), range(k[0]), range(k[1]), range(lH), range(lW)):
        pp, qq = i * s[0] + u * d[0] - p[0], j * s[1] + v * d[1] - p[1]
        out[n, (c * k[0] + u) * k[1] + v, i * lW + j] = x[n, c, pp, qq] if (0 <= pp < H and 0 <= qq < W) else pad_value
    return out


def fold(y, output_size, kernel, dilation=1, stride=1, padding=0):
    y = np.asarray(y)
    if y.ndim != 3:
        raise Reject("wrong rank")
    k, d, s, p = _pair(kernel), _pair(dilation), _pair(stride), _pair(padding)
    H, W = _pair(output_size)
    N = y.shape[0]
    if y.shape[1] % (k[0] * k[1]) != 0:
        raise Reject("channel dimension not divisible by the kernel size")
    C = y.shape[1] // (k[0] * k[1])
    lH, lW = conv_out(H, k[0], s[0], p[0], d[0]), conv_out(W, k[1], s[1], p[1], d[1])
    if lH <= 0 or lW <= 0 or lH * lW != y.shape[2]:
        raise Reject("block count mismatch")
    out = _like((N, C, H, W), y)
    out[...] = 0
    for n, c, u, v, i, j in itertools.product(range(N), range(C), range(k[0]), range(k[1]), range(lH), range(lW)):
        pp, qq = i * s[0] + u * d[0] - p[0], j * s[1] + v * d[1] - p[1]
        if 0 <= pp < H and 0 <= qq < W:
            out[n, c, pp, qq] = out[n, c, pp, qq] + y[n, (c * k[0] + u) * k[1] + v, i * lW + j]
    return out


def batch_norm(x, gamma, beta, rm, rv, training, momentum, eps, sqrt):
    """returns (y, new_running_mean, new_running_var); biased variance normalises, unbiased variance updates the buffer"""
    x = np.asarray(x)
    if x.ndim < 2:
        raise Reject("rank < 2")
    C = x.shape[1]
    idxs = list(_it(x.shape))
    n = x.size // C
    use_batch = training or rm is None or rv is None
    out = _like(x.shape, x)
    new_rm = None if rm is None else _like((C,), x)
    new_rv = None if rv is None else _like((C,), x)
    for c in range(C):
        vals = [x[i] for i in idxs if i[1] == c]
        if use_batch:
            mean = 0
            for v in vals:
                mean = mean + v
            mean = mean / n
            var = 0
            for v in vals:
                var = var + (v - mean) * (v - mean)
            var = var / n
        else:
            mean, var = rm[c], rv[c]
        std = sqrt(var + eps)
        for i in idxs:
            if i[1] == c:
                y = (x[i] - mean) / std
                if gamma is not None:
                    y = y * gamma[c]
                if beta is not None:
                    y = y + beta[c]
                out[i] = y
        if rm is not None:
            new_rm[c] = (mean * momentum + rm[c] * (1 - momentum)) if training else rm[c]
        if rv is not None:
            if training:
                if n <= 1:
                    raise Reject("unbiased variance of a single value")
                new_rv[c] = var * (float(n) / (float(n) - 1)) * momentum + rv[c] * (1 - momentum)     # n/(n-1) as a float, as any float implementation computes it
            else:
                new_rv[c] = rv[c]
    return out, new_rm, new_rv
